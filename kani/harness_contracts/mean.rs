// Kani FRAME-CONDITION harnesses for src/mean.rs (child module `verif_kani_contracts` of `mean`), mounted only in the second build of
// the scratch copy, in which kani/contracts.json has spliced `#[kani::ensures(|_r| true)]` (no `modifies` clause) onto the real
// functions: Kani then checks that every assignment made during the call goes to a local or a fresh allocation.
#![allow(unused_imports, dead_code)]
use super::*;
use crate::error::CIError;
use crate::stats::verif_kani::{any_confidence, det_t_value, det_z_value};
use crate::mean::verif_kani::*;

// ---- frame conditions (C01 / C05 / C10: an interval producer is a function of the accumulated state and the confidence; it
// writes to nothing but its own locals -- no statics, thread-locals or memo tables; see kani/contracts.json)
#[kani::proof_for_contract(Arithmetic::<f64>::ci_mean)]
#[kani::stub(crate::stats::t_value, det_t_value)]
#[kani::stub(crate::stats::z_value, det_z_value)]
fn c10t_frame_arithmetic_ci_mean_writes_no_hidden_state() {
    let a = any_arith_f64();
    let r = a.ci_mean(any_confidence());
    kani::cover!(r.is_ok());
    kani::cover!(r.is_err());
}
#[kani::proof_for_contract(Harmonic::<f64>::ci_mean)]
#[kani::stub(crate::stats::t_value, det_t_value)]
#[kani::stub(crate::stats::z_value, det_z_value)]
fn c10t_frame_harmonic_ci_mean_writes_no_hidden_state() {
    let h = Harmonic { recip_space: any_arith_f64() };
    let r = h.ci_mean(any_confidence());
    kani::cover!(r.is_ok());
    kani::cover!(r.is_err());
}
#[kani::proof_for_contract(Geometric::<f64>::ci_mean)]
#[kani::stub(crate::stats::t_value, det_t_value)]
#[kani::stub(crate::stats::z_value, det_z_value)]
fn c10t_frame_geometric_ci_mean_writes_no_hidden_state() {
    let g = Geometric { log_space: any_arith_f64() };
    let r = g.ci_mean(any_confidence());
    kani::cover!(r.is_err());
}
