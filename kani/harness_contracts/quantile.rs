// Kani FRAME-CONDITION harnesses for src/quantile.rs (child module `verif_kani_contracts` of `quantile`), mounted only in the second build of
// the scratch copy, in which kani/contracts.json has spliced `#[kani::ensures(|_r| true)]` (no `modifies` clause) onto the real
// functions: Kani then checks that every assignment made during the call goes to a local or a fresh allocation.
#![allow(unused_imports, dead_code)]
use super::*;
use crate::error::CIError;
use crate::stats::verif_kani::{any_confidence, det_z_value};

// ---- frame condition (C03 / C10): quantile::Stats::ci writes to nothing but its own locals (see kani/contracts.json)
#[kani::proof_for_contract(Stats::ci)]
#[kani::stub(crate::stats::z_value, det_z_value)]
fn c10t_frame_quantile_stats_ci_writes_no_hidden_state() {
    let s = Stats::new(kani::any());
    let q: f64 = kani::any();
    let r = s.ci(crate::stats::verif_kani::any_confidence(), q);
    kani::cover!(r.is_ok());
    kani::cover!(r.is_err());
}
