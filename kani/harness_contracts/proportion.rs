// Kani FRAME-CONDITION harnesses for src/proportion.rs (child module `verif_kani_contracts` of `proportion`), mounted only in the second build of
// the scratch copy, in which kani/contracts.json has spliced `#[kani::ensures(|_r| true)]` (no `modifies` clause) onto the real
// functions: Kani then checks that every assignment made during the call goes to a local or a fresh allocation.
#![allow(unused_imports, dead_code)]
use super::*;
use crate::error::CIError;
use crate::stats::verif_kani::{any_confidence, det_z_value};

// ---- frame conditions (C02 / C10 / C17: an interval producer is a function of its arguments).  The contract spliced onto the
// real function by kani/contracts.json has no `modifies` clause, so Kani's contract instrumentation checks every assignment
// made during the call: anything other than locals and fresh allocations (a static, a thread-local, a memo table) fails
// "Check that ... is assignable".  z_value is stubbed: statrs' lazily initialised distribution object is outside the claim.
#[kani::proof_for_contract(ci_wilson)]
#[kani::stub(crate::stats::z_value, det_z_value)]
fn c02_frame_ci_wilson_writes_no_hidden_state() {
    let c = any_confidence();
    let n: usize = kani::any();
    let k: usize = kani::any();
    let r = ci_wilson(c, n, k);
    kani::cover!(r.is_ok());
    kani::cover!(r.is_err());
}
#[kani::proof_for_contract(ci_z_normal)]
#[kani::stub(crate::stats::z_value, det_z_value)]
fn c02_frame_ci_z_normal_writes_no_hidden_state() {
    let c = any_confidence();
    let n: usize = kani::any();
    let k: usize = kani::any();
    let r = ci_z_normal(c, n, k);
    kani::cover!(r.is_ok());
    kani::cover!(r.is_err());
}
