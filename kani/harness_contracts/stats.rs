// Kani FRAME-CONDITION harnesses for src/stats.rs (child module `verif_kani_contracts` of `stats`), mounted only in the second build of
// the scratch copy, in which kani/contracts.json has spliced `#[kani::ensures(|_r| true)]` (no `modifies` clause) onto the real
// functions: Kani then checks that every assignment made during the call goes to a local or a fresh allocation.
#![allow(unused_imports, dead_code)]
use super::*;
use crate::error::CIError;
use crate::stats::verif_kani::{any_confidence, det_t_value, det_z_value};

// ---- frame condition (C01 / C10): interval_bounds writes to nothing but its own locals (see kani/contracts.json)
#[kani::proof_for_contract(interval_bounds)]
#[kani::stub(crate::stats::t_value, det_t_value)]
#[kani::stub(crate::stats::z_value, det_z_value)]
fn c10_frame_interval_bounds_writes_no_hidden_state() {
    let c = any_confidence();
    let mean: f64 = kani::any();
    let sem: f64 = kani::any();
    let dof: f64 = kani::any();
    kani::assume(dof > 0.0);
    let (lo, _hi) = interval_bounds(c, mean, sem, dof);
    kani::cover!(lo.is_finite());
}

