// Kani FRAME-CONDITION harnesses for src/comparison.rs (child module `verif_kani_contracts` of `comparison`), mounted only in the second build of
// the scratch copy, in which kani/contracts.json has spliced `#[kani::ensures(|_r| true)]` (no `modifies` clause) onto the real
// functions: Kani then checks that every assignment made during the call goes to a local or a fresh allocation.
#![allow(unused_imports, dead_code)]
use super::*;
use crate::error::CIError;
use crate::stats::verif_kani::{any_confidence, det_t_value, det_z_value};
use crate::mean::verif_kani::*;

// ---- frame condition (C04 / C10): Unpaired::ci_mean writes to nothing but its own locals (see kani/contracts.json)
#[kani::proof_for_contract(Unpaired::<f32>::ci_mean)]
#[kani::stub(crate::stats::t_value, det_t_value)]
#[kani::stub(crate::stats::z_value, det_z_value)]
fn c10t_frame_unpaired_ci_mean_writes_no_hidden_state() {
    let u = Unpaired { stats_a: any_arith_f32(), stats_b: any_arith_f32() };
    let r = u.ci_mean(any_confidence());
    kani::cover!(r.is_ok());
    kani::cover!(r.is_err());
}
