// Kani harnesses for src/interval.rs (mounted as a child module of `interval`).
// C07 set relations, C13 arithmetic, C14 well-formedness/accessors, C15 order, C19 approx/Display.
#![allow(unused_imports, dead_code)]
use super::*;
use core::cmp::Ordering;
use core::ops::RangeBounds;

// ---------------------------------------------------------------- generators
// kind: 0 = two-sided, 1 = upper one-sided [l, +inf), 2 = lower one-sided (-inf, h]
fn any_interval_i8(kind: u8) -> Interval<i8> {
    let a: i8 = kani::any();
    let b: i8 = kani::any();
    match kind {
        0 => {
            kani::assume(a <= b);
            Interval::TwoSided(a, b)
        }
        1 => Interval::UpperOneSided(a),
        _ => Interval::LowerOneSided(a),
    }
}
fn any_kind() -> u8 {
    let k: u8 = kani::any();
    kani::assume(k < 3);
    k
}
// membership in the denoted closed set, written from the definition (i16 so that
// probe points outside the i8 box exist: a half-line is unbounded)
fn den(i: &Interval<i8>, x: i16) -> bool {
    match i {
        Interval::TwoSided(l, h) => (*l as i16) <= x && x <= (*h as i16),
        Interval::UpperOneSided(l) => (*l as i16) <= x,
        Interval::LowerOneSided(h) => x <= (*h as i16),
    }
}
fn any_probe() -> i16 {
    let x: i16 = kani::any();
    kani::assume(-200 <= x && x <= 200);
    x
}
// a member of both, if one exists: the largest lower bound (or the smallest upper bound)
fn meet_witness(a: &Interval<i8>, b: &Interval<i8>) -> i16 {
    let lo = |i: &Interval<i8>| match i {
        Interval::TwoSided(l, _) | Interval::UpperOneSided(l) => Some(*l as i16),
        _ => None,
    };
    let hi = |i: &Interval<i8>| match i {
        Interval::TwoSided(_, h) | Interval::LowerOneSided(h) => Some(*h as i16),
        _ => None,
    };
    match (lo(a), lo(b)) {
        (Some(x), Some(y)) => if x >= y { x } else { y },
        (Some(x), None) | (None, Some(x)) => x,
        (None, None) => match (hi(a), hi(b)) {
            (Some(x), Some(y)) => if x <= y { x } else { y },
            _ => 0,
        },
    }
}

// ---------------------------------------------------------------- C07
#[kani::proof]
fn c07_contains_is_membership() {
    let i = any_interval_i8(any_kind());
    let x: i8 = kani::any();
    assert!(i.contains(&x) == den(&i, x as i16));
    kani::cover!(i.contains(&x));
    kani::cover!(!i.contains(&x));
}

#[kani::proof]
fn c07_intersects_is_nonempty_meet() {
    let a = any_interval_i8(any_kind());
    let b = any_interval_i8(any_kind());
    let r = a.intersects(&b);
    let x = any_probe();
    // (=>) no common member may exist when the answer is false
    if !r {
        assert!(!(den(&a, x) && den(&b, x)));
    }
    // (<=) when the answer is true the canonical witness is a common member
    let w = meet_witness(&a, &b);
    if r {
        assert!(den(&a, w) && den(&b, w));
    }
    // symmetric relation
    assert!(r == b.intersects(&a));
    kani::cover!(r);
    kani::cover!(!r);
}

#[kani::proof]
fn c07_includes_is_superset() {
    let a = any_interval_i8(any_kind());
    let b = any_interval_i8(any_kind());
    let r = a.includes(&b);
    let x = any_probe();
    if r {
        // every member of b is a member of a
        assert!(!den(&b, x) || den(&a, x));
    } else {
        // some member of b is outside a: one of b's bounds, or a far point on b's unbounded side
        let cands: [i16; 4] = [
            match &b { Interval::TwoSided(l, _) | Interval::UpperOneSided(l) => *l as i16, Interval::LowerOneSided(h) => *h as i16 },
            match &b { Interval::TwoSided(_, h) | Interval::LowerOneSided(h) => *h as i16, Interval::UpperOneSided(l) => *l as i16 },
            200,
            -200,
        ];
        let mut found = false;
        let mut k = 0;
        while k < 4 {
            if den(&b, cands[k]) && !den(&a, cands[k]) {
                found = true;
            }
            k += 1;
        }
        assert!(found);
    }
    kani::cover!(r);
    kani::cover!(!r);
}

#[kani::proof]
fn c07_is_included_in_is_subset() {
    let a = any_interval_i8(any_kind());
    let b = any_interval_i8(any_kind());
    assert!(a.is_included_in(&b) == b.includes(&a));
    let x = any_probe();
    if a.is_included_in(&b) {
        assert!(!den(&a, x) || den(&b, x));
    }
    kani::cover!(a.is_included_in(&b));
}

// Through the std RangeBounds interface an interval denotes the same set.
#[kani::proof]
fn c07_range_bounds_same_membership() {
    let i = any_interval_i8(any_kind());
    let x: i8 = kani::any();
    assert!(RangeBounds::contains(&i, &x) == i.contains(&x));
    kani::cover!(i.contains(&x));
}

// float intervals: +-0 are the same point, infinities are ordinary (extreme) members
#[kani::proof]
fn c07_float_zero_and_infinity() {
    let a: f32 = kani::any();
    let b: f32 = kani::any();
    let x: f32 = kani::any();
    kani::assume(!a.is_nan() && !b.is_nan() && !x.is_nan() && a <= b);
    let i = Interval::TwoSided(a, b);
    assert!(i.contains(&x) == (a <= x && x <= b));
    if x == 0.0 {
        assert!(i.contains(&x) == i.contains(&0.0f32) && i.contains(&x) == i.contains(&-0.0f32));
    }
    let u = Interval::UpperOneSided(a);
    assert!(u.contains(&f32::INFINITY));
    assert!(u.contains(&x) == (a <= x));
    let l = Interval::LowerOneSided(b);
    assert!(l.contains(&f32::NEG_INFINITY));
    assert!(l.contains(&x) == (x <= b));
    assert!(u.intersects(&l) == (a <= b));
    kani::cover!(x == 0.0 && i.contains(&x));
}
