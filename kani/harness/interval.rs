// Kani harnesses for src/interval.rs (mounted as a child module of `interval`).
// C07 set relations, C13 arithmetic, C14 well-formedness/accessors, C15 order, C19 approx/Display.
#![allow(unused_imports, dead_code)]
use super::*;
use core::cmp::Ordering;
use core::ops::RangeBounds;

// ---------------------------------------------------------------- generators
// kind: 0 = two-sided, 1 = upper one-sided [l, +inf), 2 = lower one-sided (-inf, h]
fn any_interval_i8(kind: u8) -> Interval<i8> {
    let a: i8 = kani::any();
    let b: i8 = kani::any();
    match kind {
        0 => {
            kani::assume(a <= b);
            Interval::TwoSided(a, b)
        }
        1 => Interval::UpperOneSided(a),
        _ => Interval::LowerOneSided(a),
    }
}
fn any_kind() -> u8 {
    let k: u8 = kani::any();
    kani::assume(k < 3);
    k
}
// membership in the denoted closed set, written from the definition (i16 so that
// probe points outside the i8 box exist: a half-line is unbounded)
fn den(i: &Interval<i8>, x: i16) -> bool {
    match i {
        Interval::TwoSided(l, h) => (*l as i16) <= x && x <= (*h as i16),
        Interval::UpperOneSided(l) => (*l as i16) <= x,
        Interval::LowerOneSided(h) => x <= (*h as i16),
    }
}
fn any_probe() -> i16 {
    let x: i16 = kani::any();
    kani::assume(-200 <= x && x <= 200);
    x
}
// a member of both, if one exists: the largest lower bound (or the smallest upper bound)
fn meet_witness(a: &Interval<i8>, b: &Interval<i8>) -> i16 {
    let lo = |i: &Interval<i8>| match i {
        Interval::TwoSided(l, _) | Interval::UpperOneSided(l) => Some(*l as i16),
        _ => None,
    };
    let hi = |i: &Interval<i8>| match i {
        Interval::TwoSided(_, h) | Interval::LowerOneSided(h) => Some(*h as i16),
        _ => None,
    };
    match (lo(a), lo(b)) {
        (Some(x), Some(y)) => if x >= y { x } else { y },
        (Some(x), None) | (None, Some(x)) => x,
        (None, None) => match (hi(a), hi(b)) {
            (Some(x), Some(y)) => if x <= y { x } else { y },
            _ => 0,
        },
    }
}

// ---------------------------------------------------------------- C07
#[kani::proof]
fn c07_contains_is_membership() {
    let i = any_interval_i8(any_kind());
    let x: i8 = kani::any();
    assert!(i.contains(&x) == den(&i, x as i16));
    kani::cover!(i.contains(&x));
    kani::cover!(!i.contains(&x));
}

#[kani::proof]
fn c07_intersects_is_nonempty_meet() {
    let a = any_interval_i8(any_kind());
    let b = any_interval_i8(any_kind());
    let r = a.intersects(&b);
    let x = any_probe();
    // (=>) no common member may exist when the answer is false
    if !r {
        assert!(!(den(&a, x) && den(&b, x)));
    }
    // (<=) when the answer is true the canonical witness is a common member
    let w = meet_witness(&a, &b);
    if r {
        assert!(den(&a, w) && den(&b, w));
    }
    // symmetric relation
    assert!(r == b.intersects(&a));
    kani::cover!(r);
    kani::cover!(!r);
}

#[kani::proof]
fn c07_includes_is_superset() {
    let a = any_interval_i8(any_kind());
    let b = any_interval_i8(any_kind());
    let r = a.includes(&b);
    let x = any_probe();
    if r {
        // every member of b is a member of a
        assert!(!den(&b, x) || den(&a, x));
    } else {
        // some member of b is outside a: one of b's bounds, or a far point on b's unbounded side
        let cands: [i16; 4] = [
            match &b { Interval::TwoSided(l, _) | Interval::UpperOneSided(l) => *l as i16, Interval::LowerOneSided(h) => *h as i16 },
            match &b { Interval::TwoSided(_, h) | Interval::LowerOneSided(h) => *h as i16, Interval::UpperOneSided(l) => *l as i16 },
            200,
            -200,
        ];
        let mut found = false;
        let mut k = 0;
        while k < 4 {
            if den(&b, cands[k]) && !den(&a, cands[k]) {
                found = true;
            }
            k += 1;
        }
        assert!(found);
    }
    kani::cover!(r);
    kani::cover!(!r);
}

#[kani::proof]
fn c07_is_included_in_is_subset() {
    let a = any_interval_i8(any_kind());
    let b = any_interval_i8(any_kind());
    assert!(a.is_included_in(&b) == b.includes(&a));
    let x = any_probe();
    if a.is_included_in(&b) {
        assert!(!den(&a, x) || den(&b, x));
    }
    kani::cover!(a.is_included_in(&b));
}

// Through the std RangeBounds interface an interval denotes the same set.
#[kani::proof]
fn c07_range_bounds_same_membership() {
    let i = any_interval_i8(any_kind());
    let x: i8 = kani::any();
    assert!(RangeBounds::contains(&i, &x) == i.contains(&x));
    kani::cover!(i.contains(&x));
}

// float intervals: +-0 are the same point, infinities are ordinary (extreme) members
#[kani::proof]
fn c07_float_zero_and_infinity() {
    let a: f32 = kani::any();
    let b: f32 = kani::any();
    let x: f32 = kani::any();
    kani::assume(!a.is_nan() && !b.is_nan() && !x.is_nan() && a <= b);
    let i = Interval::TwoSided(a, b);
    assert!(i.contains(&x) == (a <= x && x <= b));
    if x == 0.0 {
        assert!(i.contains(&x) == i.contains(&0.0f32) && i.contains(&x) == i.contains(&-0.0f32));
    }
    let u = Interval::UpperOneSided(a);
    assert!(u.contains(&f32::INFINITY));
    assert!(u.contains(&x) == (a <= x));
    let l = Interval::LowerOneSided(b);
    assert!(l.contains(&f32::NEG_INFINITY));
    assert!(l.contains(&x) == (x <= b));
    assert!(u.intersects(&l) == (a <= b));
    kani::cover!(x == 0.0 && i.contains(&x));
}

// ---------------------------------------------------------------- C13: scalar arithmetic
#[derive(Clone, Copy, PartialEq)]
enum Op { Add, Sub, Mul, Div, Neg }

fn apply_i16(op: Op, x: i16, k: i16) -> i16 {
    match op {
        Op::Add => x + k,
        Op::Sub => x - k,
        Op::Mul => x * k,
        Op::Div => x / k,
        Op::Neg => -x,
    }
}
fn in_i8(v: i16) -> bool { -128 <= v && v <= 127 }

// A op k for an interval A of the given kind: sound, tight, well-formed, right kind.
fn check_scalar(op: Op, kind: u8) {
    let a = any_interval_i8(kind);
    let k: i8 = kani::any();
    if op == Op::Div { kani::assume(k != 0); }
    // precondition: the bound computations do not overflow
    let bnds: [Option<i8>; 2] = match a {
        Interval::TwoSided(l, h) => [Some(l), Some(h)],
        Interval::UpperOneSided(l) => [Some(l), None],
        Interval::LowerOneSided(h) => [None, Some(h)],
    };
    for b in bnds.iter().flatten() {
        kani::assume(in_i8(apply_i16(op, *b as i16, k as i16)));
    }
    let r = match op {
        Op::Add => a + k,
        Op::Sub => a - k,
        Op::Mul => a * k,
        Op::Div => a / k,
        Op::Neg => -a,
    };
    // the order-direction of the map x -> x op k
    let increasing = match op { Op::Add | Op::Sub => true, Op::Mul | Op::Div => k > 0, Op::Neg => false };
    let constant = op == Op::Mul && k == 0;
    // (well-formed)
    if let Interval::TwoSided(l, h) = r { assert!(l <= h, "result has lower bound above upper bound"); }
    // (kind) unbounded on exactly the side the image is
    match a {
        Interval::TwoSided(..) => assert!(r.is_two_sided(), "image of a bounded interval is bounded"),
        Interval::UpperOneSided(_) => {
            if constant { assert!(r.is_two_sided()); }
            else if increasing { assert!(r.is_upper(), "image of [l,+inf) under an increasing map is [.,+inf)"); }
            else { assert!(r.is_lower(), "image of [l,+inf) under a decreasing map is (-inf,.]"); }
        }
        Interval::LowerOneSided(_) => {
            if constant { assert!(r.is_two_sided()); }
            else if increasing { assert!(r.is_lower(), "image of (-inf,h] under an increasing map is (-inf,.]"); }
            else { assert!(r.is_upper(), "image of (-inf,h] under a decreasing map is [.,+inf)"); }
        }
    }
    // (sound) every member maps into the result
    let x: i8 = kani::any();
    if a.contains(&x) && in_i8(apply_i16(op, x as i16, k as i16)) {
        let y = apply_i16(op, x as i16, k as i16) as i8;
        assert!(r.contains(&y), "x in A but x op k not in A op k");
    }
    // (tight) every finite bound of the result is the image of a bound of A (bounds are members)
    let img = |b: i8| apply_i16(op, b as i16, k as i16) as i8;
    let attained = |v: i8| bnds.iter().flatten().any(|b| img(*b) == v);
    match r {
        Interval::TwoSided(l, h) => assert!(attained(l) && attained(h), "bound not attained"),
        Interval::UpperOneSided(l) => assert!(attained(l), "bound not attained"),
        Interval::LowerOneSided(h) => assert!(attained(h), "bound not attained"),
    }
    kani::cover!(k > 0);
    kani::cover!(k < 0);
}

// EXACT-UNWIND: the only loops iterate over the harness's own 2-element arrays of bounds; the code under test is loop-free and every input ranges over its whole type
macro_rules! scalar_harnesses {
    ($($name:ident: $op:expr, $kind:expr;)*) => { $( #[kani::proof] #[kani::unwind(4)] fn $name() { check_scalar($op, $kind); } )* };
}
scalar_harnesses! {
    c13_add_scalar_two: Op::Add, 0; c13_add_scalar_upper: Op::Add, 1; c13_add_scalar_lower: Op::Add, 2;
    c13_sub_scalar_two: Op::Sub, 0; c13_sub_scalar_upper: Op::Sub, 1; c13_sub_scalar_lower: Op::Sub, 2;
    c13_mul_scalar_two: Op::Mul, 0; c13_mul_scalar_upper: Op::Mul, 1; c13_mul_scalar_lower: Op::Mul, 2;
    c13_div_scalar_two: Op::Div, 0; c13_div_scalar_upper: Op::Div, 1; c13_div_scalar_lower: Op::Div, 2;
    c13_neg_two: Op::Neg, 0; c13_neg_upper: Op::Neg, 1; c13_neg_lower: Op::Neg, 2;
}

// ---------------------------------------------------------------- C13: interval (+|-) interval
fn lo_of(i: &Interval<i8>) -> Option<i8> { match i { Interval::TwoSided(l, _) | Interval::UpperOneSided(l) => Some(*l), _ => None } }
fn hi_of(i: &Interval<i8>) -> Option<i8> { match i { Interval::TwoSided(_, h) | Interval::LowerOneSided(h) => Some(*h), _ => None } }

fn check_binary(sub: bool, ka: u8, kb: u8) {
    let a = any_interval_i8(ka);
    let b = any_interval_i8(kb);
    // image bounds in Z: A+B = [lo(a)+lo(b), hi(a)+hi(b)];  A-B = [lo(a)-hi(b), hi(a)-lo(b)]
    let (bl, bh) = if sub { (hi_of(&b), lo_of(&b)) } else { (lo_of(&b), hi_of(&b)) };
    let f = |x: i8, y: i8| if sub { x as i16 - y as i16 } else { x as i16 + y as i16 };
    let exp_lo = match (lo_of(&a), bl) { (Some(x), Some(y)) => Some(f(x, y)), _ => None };
    let exp_hi = match (hi_of(&a), bh) { (Some(x), Some(y)) => Some(f(x, y)), _ => None };
    // compatible pairs only (the incompatible ones are documented to panic: see C11)
    kani::assume(exp_lo.is_some() || exp_hi.is_some());
    // no overflow in any bound computation the implementation might perform
    for p in [lo_of(&a), hi_of(&a)].iter().flatten() {
        for q in [lo_of(&b), hi_of(&b)].iter().flatten() {
            kani::assume(in_i8(f(*p, *q)));
        }
    }
    let r = if sub { a - b } else { a + b };
    // (kind + tight) the result is exactly the image: finite bounds are attained by the bounds of A and B
    assert!(lo_of(&r).map(|v| v as i16) == exp_lo, "lower bound of the result is not the minimum of the image");
    assert!(hi_of(&r).map(|v| v as i16) == exp_hi, "upper bound of the result is not the maximum of the image");
    // (well-formed)
    if let Interval::TwoSided(l, h) = r { assert!(l <= h); }
    // (sound) universal members
    let x: i8 = kani::any();
    let y: i8 = kani::any();
    if a.contains(&x) && b.contains(&y) && in_i8(f(x, y)) {
        assert!(r.contains(&(f(x, y) as i8)), "x in A, y in B but x op y not in A op B");
    }
    kani::cover!(true);
}
// EXACT-UNWIND: the only loops iterate over the harness's own 2-element arrays of bounds; the code under test is loop-free and every input ranges over its whole type
macro_rules! binary_harnesses {
    ($($name:ident: $sub:expr, $ka:expr, $kb:expr;)*) => { $( #[kani::proof] #[kani::unwind(4)] fn $name() { check_binary($sub, $ka, $kb); } )* };
}
binary_harnesses! {
    c13_add_two_two: false, 0, 0; c13_add_two_upper: false, 0, 1; c13_add_two_lower: false, 0, 2;
    c13_add_upper_two: false, 1, 0; c13_add_upper_upper: false, 1, 1;
    c13_add_lower_two: false, 2, 0; c13_add_lower_lower: false, 2, 2;
    c13_sub_two_two: true, 0, 0; c13_sub_two_upper: true, 0, 1; c13_sub_two_lower: true, 0, 2;
    c13_sub_upper_two: true, 1, 0; c13_sub_upper_lower: true, 1, 2;
    c13_sub_lower_two: true, 2, 0; c13_sub_lower_upper: true, 2, 1;
}

// relative_to: BOUNDED stand-in.  All bounds and members on the integer grid 0..=16 as f32
// (differences exact, one correctly rounded division, rounding is monotone, so float
// comparison agrees with real comparison).
fn grid() -> f32 {
    let v: u8 = kani::any();
    kani::assume(v <= 16);
    v as f32
}
fn any_interval_grid(kind: u8, strictly_positive: bool) -> Interval<f32> {
    let a = grid();
    let b = grid();
    if strictly_positive { kani::assume(a > 0.0 && b > 0.0); }
    match kind {
        0 => { kani::assume(a <= b); Interval::TwoSided(a, b) }
        1 => Interval::UpperOneSided(a),
        _ => Interval::LowerOneSided(a),
    }
}
fn check_relative(ks: u8, kr: u8) {
    let s = any_interval_grid(ks, false);
    let r = any_interval_grid(kr, true);
    let rel = s.relative_to(&r);
    let x = grid();
    let y = grid();
    if s.contains(&x) && r.contains(&y) {
        // encloses (x - r)/r for all members
        assert!(rel.contains(&((x - y) / y)), "relative_to does not enclose (x-r)/r");
    }
    // attains its bounds: lower bound at (low of self, high of reference), upper at (high of self, low of reference)
    if let Some(l) = rel.left() {
        let (sl, rh) = (s.low_f(), r.high_f());
        assert!(s.contains(&sl) && r.contains(&rh) && *l == (sl - rh) / rh, "lower bound not attained");
    }
    if let Some(h) = rel.right() {
        let (sh, rl) = (s.high_f(), r.low_f());
        assert!(s.contains(&sh) && r.contains(&rl) && *h == (sh - rl) / rl, "upper bound not attained");
    }
    if let Interval::TwoSided(l, h) = rel { assert!(l <= h); }
    kani::cover!(true);
}
macro_rules! relative_harnesses {
    ($($name:ident: $ks:expr, $kr:expr;)*) => { $( #[kani::proof] fn $name() { check_relative($ks, $kr); } )* };
}
// The property's domain: a non-negative interval (two-sided or [l,+inf), l >= 0) against a strictly
// positive reference (two-sided or [l,+inf), l > 0).  (-inf, h] is neither, and upper/upper is a documented panic.
relative_harnesses! {
    c13_relative_two_two: 0, 0; c13_relative_two_upper: 0, 1;
    c13_relative_upper_two: 1, 0;
}

// ---------------------------------------------------------------- C15: partial order
// same interval: same kind and same bounds (written out: the oracle must not lean on the PartialEq under test)
fn same_interval(a: &Interval<i8>, b: &Interval<i8>) -> bool {
    match (a, b) {
        (Interval::TwoSided(l1, h1), Interval::TwoSided(l2, h2)) => l1 == l2 && h1 == h2,
        (Interval::UpperOneSided(l1), Interval::UpperOneSided(l2)) => l1 == l2,
        (Interval::LowerOneSided(h1), Interval::LowerOneSided(h2)) => h1 == h2,
        _ => false,
    }
}
fn expected_cmp(a: &Interval<i8>, b: &Interval<i8>) -> Option<Ordering> {
    if same_interval(a, b) {
        Some(Ordering::Equal)
    } else if matches!((hi_of(a), lo_of(b)), (Some(h), Some(l)) if h <= l) {
        Some(Ordering::Less)
    } else if matches!((hi_of(b), lo_of(a)), (Some(h), Some(l)) if h <= l) {
        Some(Ordering::Greater)
    } else {
        None
    }
}
#[kani::proof]
fn c15_partial_cmp_matches_spec() {
    let a = any_interval_i8(any_kind());
    let b = any_interval_i8(any_kind());
    let r = a.partial_cmp(&b);
    assert!(r == expected_cmp(&a, &b));
    // Equal exactly when == (and == is "same kind, same bounds")
    assert!((a == b) == same_interval(&a, &b));
    assert!((r == Some(Ordering::Equal)) == (a == b));
    // a < b exactly when b > a
    assert!((r == Some(Ordering::Less)) == (b.partial_cmp(&a) == Some(Ordering::Greater)));
    assert!((a < b) == (r == Some(Ordering::Less)));
    assert!((a > b) == (r == Some(Ordering::Greater)));
    kani::cover!(r == Some(Ordering::Less));
    kani::cover!(r == Some(Ordering::Equal));
    kani::cover!(r.is_none());
}
// a < b  <=>  a != b and every member of a is <= every member of b
#[kani::proof]
fn c15_less_is_memberwise() {
    let a = any_interval_i8(any_kind());
    let b = any_interval_i8(any_kind());
    let less = a.partial_cmp(&b) == Some(Ordering::Less);
    let x = any_probe();
    let y = any_probe();
    if less {
        assert!(a != b);
        assert!(!(den(&a, x) && den(&b, y)) || x <= y);
    } else if a != b {
        // some member of a exceeds some member of b: extreme members as witnesses
        let xa = match hi_of(&a) { Some(h) => h as i16, None => 200 };
        let yb = match lo_of(&b) { Some(l) => l as i16, None => -200 };
        assert!(den(&a, xa) && den(&b, yb) && xa > yb);
    }
    kani::cover!(less);
    kani::cover!(!less && a != b);
}
#[kani::proof]
fn c15_transitive() {
    let a = any_interval_i8(any_kind());
    let b = any_interval_i8(any_kind());
    let c = any_interval_i8(any_kind());
    if a < b && b < c {
        assert!(a < c);
        kani::cover!(true);
    }
    if a > b && b > c {
        assert!(a > c);
    }
}
// overlapping in more than a point, or unbounded on the same side => incomparable
#[kani::proof]
fn c15_incomparable() {
    let a = any_interval_i8(any_kind());
    let b = any_interval_i8(any_kind());
    let x = any_probe();
    let y = any_probe();
    let same_side = (a.is_upper() && b.is_upper()) || (a.is_lower() && b.is_lower());
    if a != b && (same_side || (x != y && den(&a, x) && den(&b, x) && den(&a, y) && den(&b, y))) {
        assert!(a.partial_cmp(&b).is_none());
        kani::cover!(same_side);
        kani::cover!(!same_side);
    }
}

// ---------------------------------------------------------------- C14: well-formedness, accessors, conversions
use crate::error::IntervalError;

#[kani::proof]
fn c14_new_wellformed_i8() {
    let l: i8 = kani::any();
    let h: i8 = kani::any();
    match Interval::new(l, h) {
        Ok(i) => {
            assert!(l <= h);
            assert!(i == Interval::TwoSided(l, h));
            kani::cover!(l == h, "degenerate accepted");
        }
        Err(IntervalError::InvalidBounds) => { assert!(l > h); kani::cover!(true, "inverted rejected"); }
        Err(_) => assert!(false, "wrong error variant"),
    }
}
// floats, all bit patterns (NaN, +-0, +-inf): Ok => low <= high
#[kani::proof]
fn c14_new_wellformed_f32() {
    let l: f32 = kani::any();
    let h: f32 = kani::any();
    match Interval::new(l, h) {
        Ok(Interval::TwoSided(a, b)) => {
            assert!(a <= b, "Ok interval with low <= high false");
            assert!(a.to_bits() == l.to_bits() && b.to_bits() == h.to_bits());
            kani::cover!(l == 0.0 && h == 0.0 && l.to_bits() != h.to_bits(), "+-0");
            kani::cover!(l == f32::NEG_INFINITY && h == f32::INFINITY);
        }
        Ok(_) => assert!(false, "wrong kind"),
        Err(IntervalError::InvalidBounds) => { assert!(!(l <= h)); kani::cover!(l > h); }
        Err(_) => assert!(false, "wrong error variant"),
    }
}
#[kani::proof]
fn c14_try_from_tuple() {
    let l: i8 = kani::any();
    let h: i8 = kani::any();
    match Interval::try_from((l, h)) {
        Ok(i) => { assert!(l <= h && i == Interval::TwoSided(l, h)); kani::cover!(true, "ok"); }
        Err(IntervalError::InvalidBounds) => { assert!(l > h); kani::cover!(true, "err"); }
        Err(_) => assert!(false, "wrong error variant"),
    }
    let lf: f32 = kani::any();
    let hf: f32 = kani::any();
    if let Ok(Interval::TwoSided(a, b)) = Interval::try_from((lf, hf)) { assert!(a <= b); }
}
#[kani::proof]
fn c14_try_from_option_pair_roundtrip() {
    let l: Option<i8> = kani::any();
    let h: Option<i8> = kani::any();
    match Interval::try_from((l, h)) {
        Ok(i) => {
            match (l, h) {
                (Some(a), Some(b)) => assert!(a <= b && i == Interval::TwoSided(a, b)),
                (Some(a), None) => assert!(i == Interval::UpperOneSided(a)),
                (None, Some(b)) => assert!(i == Interval::LowerOneSided(b)),
                (None, None) => assert!(false, "doubly unbounded accepted"),
            }
            // and back: lossless
            let back: (Option<i8>, Option<i8>) = i.into();
            assert!(back == (l, h));
            kani::cover!(l.is_none());
            kani::cover!(h.is_none());
        }
        Err(IntervalError::EmptyInterval) => { assert!(l.is_none() && h.is_none()); kani::cover!(true, "empty"); }
        Err(IntervalError::InvalidBounds) => { assert!(matches!((l, h), (Some(a), Some(b)) if a > b)); kani::cover!(true, "inverted"); }
    }
    // round trip from every well-formed interval
    let i = any_interval_i8(any_kind());
    let pair: (Option<i8>, Option<i8>) = i.into();
    assert!(matches!(Interval::try_from(pair), Ok(j) if j == i));
}
#[kani::proof]
fn c14_range_conversions() {
    let l: i8 = kani::any();
    let h: i8 = kani::any();
    match Interval::try_from(l..=h) {
        Ok(i) => { assert!(l <= h && i == Interval::TwoSided(l, h)); kani::cover!(true, "ok"); }
        Err(IntervalError::InvalidBounds) => { assert!(l > h); kani::cover!(true, "err"); }
        Err(_) => assert!(false),
    }
    assert!(Interval::from(l..) == Interval::UpperOneSided(l));
    assert!(Interval::from(..=h) == Interval::LowerOneSided(h));
    assert!(Interval::new_upper(l) == Interval::UpperOneSided(l));
    assert!(Interval::new_lower(h) == Interval::LowerOneSided(h));
}
#[kani::proof]
fn c14_accessors_exact() {
    let i = any_interval_i8(any_kind());
    let (l, h) = (lo_of(&i), hi_of(&i));
    assert!(i.left().copied() == l && i.right().copied() == h);
    assert!(i.low() == l && i.high() == h);
    assert!(i.low_as_ref().copied() == l && i.high_as_ref().copied() == h);
    assert!(i.low_i() == l.unwrap_or(i8::MIN) && i.high_i() == h.unwrap_or(i8::MAX));
    // kind predicates: exactly one kind; one_sided = !two_sided
    let (two, up, lo) = (i.is_two_sided(), i.is_upper(), i.is_lower());
    assert!((two as u8) + (up as u8) + (lo as u8) == 1);
    assert!(i.is_one_sided() == !two);
    assert!(two == (l.is_some() && h.is_some()) && up == (l.is_some() && h.is_none()) && lo == (l.is_none() && h.is_some()));
    // degenerate <=> two-sided with equal bounds; width = high - low iff two-sided
    assert!(i.is_degenerate() == (two && l == h));
    if let (Some(a), Some(b)) = (l, h) {
        if (b as i16 - a as i16) <= 127 { assert!(i.width() == Some(b - a)); assert!(i.is_degenerate() == (i.width() == Some(0))); }
    } else {
        assert!(i.width().is_none());
    }
    // copies compare equal
    let c = i;
    assert!(c == i && i.clone() == i);
    kani::cover!(two); kani::cover!(up); kani::cover!(lo);
}
#[kani::proof]
fn c14_unsigned_projections() {
    let a: u8 = kani::any();
    let b: u8 = kani::any();
    let k = any_kind();
    let i = match k { 0 => { kani::assume(a <= b); Interval::TwoSided(a, b) } 1 => Interval::UpperOneSided(a), _ => Interval::LowerOneSided(a) };
    match i {
        Interval::TwoSided(l, h) => assert!(i.low_u() == l && i.high_u() == h),
        Interval::UpperOneSided(l) => assert!(i.low_u() == l && i.high_u() == u8::MAX),
        Interval::LowerOneSided(h) => assert!(i.low_u() == 0 && i.high_u() == h),
    }
    kani::cover!(k == 2);
}
#[kani::proof]
fn c14_float_projections() {
    let a: f32 = kani::any();
    let b: f32 = kani::any();
    let k = any_kind();
    let i = match k { 0 => Interval::TwoSided(a, b), 1 => Interval::UpperOneSided(a), _ => Interval::LowerOneSided(a) };
    match i {
        Interval::TwoSided(l, h) => assert!(i.low_f().to_bits() == l.to_bits() && i.high_f().to_bits() == h.to_bits()),
        Interval::UpperOneSided(l) => assert!(i.low_f().to_bits() == l.to_bits() && i.high_f() == f32::INFINITY),
        Interval::LowerOneSided(h) => assert!(i.low_f() == f32::NEG_INFINITY && i.high_f().to_bits() == h.to_bits()),
    }
    let t: (f32, f32) = i.into();
    assert!(t.0.to_bits() == i.low_f().to_bits() && t.1.to_bits() == i.high_f().to_bits());
    let a64: f64 = kani::any();
    let t64: (f64, f64) = Interval::LowerOneSided(a64).into();
    assert!(t64.0 == f64::NEG_INFINITY && t64.1.to_bits() == a64.to_bits());
    let t64: (f64, f64) = Interval::UpperOneSided(a64).into();
    assert!(t64.1 == f64::INFINITY && t64.0.to_bits() == a64.to_bits());
    kani::cover!(k == 0 && a == 0.0 && a.is_sign_negative(), "-0 bound");
}
// macro-generated From<Interval<X>> for (X, X), every integer type
macro_rules! tuple_conv_checks {
    ($($t:ty),*) => { $( {
        let a: $t = kani::any();
        let b: $t = kani::any();
        let t: ($t, $t) = Interval::TwoSided(a, b).into();
        assert!(t == (a, b));
        let t: ($t, $t) = Interval::UpperOneSided(a).into();
        assert!(t == (a, <$t>::MAX));
        let t: ($t, $t) = Interval::LowerOneSided(b).into();
        assert!(t == (<$t>::MIN, b));
        // round trip through the fallible constructor
        if a <= b { assert!(matches!(Interval::try_from((a, b)), Ok(i) if <($t, $t)>::from(i) == (a, b))); }
    } )* };
}
#[kani::proof]
fn c14_tuple_conversions_all_ints() {
    tuple_conv_checks!(i8, i16, i32, i64, u8, u16, u32, u64, isize, usize);
    kani::cover!(true);
}
// 128-bit types separately (tuple `==` on 128-bit pairs crashes kani-compiler 0.68: field-wise comparison instead)
#[kani::proof]
fn c14_tuple_conversions_128() {
    let a: i128 = kani::any();
    let t: (i128, i128) = Interval::UpperOneSided(a).into();
    assert!(t.0 == a && t.1 == i128::MAX);
    let t: (i128, i128) = Interval::LowerOneSided(a).into();
    assert!(t.1 == a && t.0 == i128::MIN);
    let t: (i128, i128) = Interval::TwoSided(a, a).into();
    assert!(t.1 == a && t.0 == a);
    let b: u128 = kani::any();
    let t: (u128, u128) = Interval::UpperOneSided(b).into();
    assert!(t.0 == b && t.1 == u128::MAX);
    let t: (u128, u128) = Interval::LowerOneSided(b).into();
    assert!(t.1 == b && t.0 == u128::MIN);
    let t: (u128, u128) = Interval::TwoSided(b, b).into();
    assert!(t.1 == b && t.0 == b);
    kani::cover!(true);
}
// different kinds with the same bound are never equal; equality is bound-wise within a kind
#[kani::proof]
fn c14_eq_is_kind_and_bounds() {
    let a = any_interval_i8(any_kind());
    let b = any_interval_i8(any_kind());
    let same_kind = (a.is_two_sided() && b.is_two_sided()) || (a.is_upper() && b.is_upper()) || (a.is_lower() && b.is_lower());
    assert!((a == b) == (same_kind && lo_of(&a) == lo_of(&b) && hi_of(&a) == hi_of(&b)));
    let x: i8 = kani::any();
    assert!(Interval::UpperOneSided(x) != Interval::LowerOneSided(x));
    assert!(Interval::TwoSided(x, x) != Interval::LowerOneSided(x) && Interval::TwoSided(x, x) != Interval::UpperOneSided(x));
    kani::cover!(a == b);
}
// Hash: a recording hasher sees the same write sequence for equal intervals, and a kind tag first
struct Rec { buf: [u8; 24], n: usize }
impl core::hash::Hasher for Rec {
    fn finish(&self) -> u64 { 0 }
    fn write(&mut self, bytes: &[u8]) {
        let mut i = 0;
        while i < bytes.len() { if self.n < 24 { self.buf[self.n] = bytes[i]; self.n += 1; } i += 1; }
    }
}
fn rec_of(i: &Interval<i8>) -> Rec {
    use core::hash::Hash;
    let mut r = Rec { buf: [0; 24], n: 0 };
    i.hash(&mut r);
    r
}
#[kani::proof]
#[kani::unwind(26)]
fn c14_hash_consistent_with_eq() {
    let a = any_interval_i8(any_kind());
    let b = any_interval_i8(any_kind());
    let (ra, rb) = (rec_of(&a), rec_of(&b));
    if a == b {
        assert!(ra.n == rb.n);
        let mut i = 0;
        while i < 24 { assert!(ra.buf[i] == rb.buf[i]); i += 1; }
        kani::cover!(true, "equal pair");
    }
    // the three kinds write distinct leading tags
    let same_kind = (a.is_two_sided() && b.is_two_sided()) || (a.is_upper() && b.is_upper()) || (a.is_lower() && b.is_lower());
    if !same_kind {
        assert!(ra.buf[0] != rb.buf[0] || ra.buf[1] != rb.buf[1] || ra.buf[2] != rb.buf[2] || ra.buf[3] != rb.buf[3]);
        kani::cover!(true, "different kinds");
    }
}

// ---------------------------------------------------------------- C19: approximate equality, Display
// The interval-level comparisons are generic in the element type, so they are decided for an element
// type whose own comparison is an ARBITRARY relation: E carries a symbolic answer table indexed by the
// other element's id and by the tolerance(s) passed in.  The interval-level result must be: same kind,
// and the conjunction of the element-level answers on corresponding bounds under the SAME tolerances.
#[derive(Clone, Copy, Debug)]
struct E { id: u8, ans: [[[bool; 2]; 2]; 4] }   // ans[other.id][eps][second tolerance]
#[derive(Clone, Copy, PartialEq, Debug)]
struct Tol(u8);
impl PartialEq for E { fn eq(&self, o: &E) -> bool { self.id == o.id } }
impl PartialOrd for E { fn partial_cmp(&self, o: &E) -> Option<Ordering> { self.id.partial_cmp(&o.id) } }
impl approx::AbsDiffEq for E {
    type Epsilon = Tol;
    fn default_epsilon() -> Tol { Tol(1) }
    fn abs_diff_eq(&self, o: &E, eps: Tol) -> bool { self.ans[o.id as usize][eps.0 as usize][0] }
}
impl approx::RelativeEq for E {
    fn default_max_relative() -> Tol { Tol(0) }
    fn relative_eq(&self, o: &E, eps: Tol, mr: Tol) -> bool { self.ans[o.id as usize][eps.0 as usize][mr.0 as usize] }
}
impl approx::UlpsEq for E {
    fn default_max_ulps() -> u32 { 7 }
    fn ulps_eq(&self, o: &E, eps: Tol, mu: u32) -> bool { self.ans[o.id as usize][eps.0 as usize][(mu & 1) as usize] }
}
fn any_e(id: u8) -> E { E { id, ans: kani::any() } }
fn any_tol() -> Tol { let t: u8 = kani::any(); kani::assume(t < 2); Tol(t) }
// elements 0,1 bound the first interval, 2,3 the second
fn iv_e(kind: u8, l: E, h: E) -> Interval<E> {
    match kind { 0 => Interval::TwoSided(l, h), 1 => Interval::UpperOneSided(l), _ => Interval::LowerOneSided(h) }
}
// same kind and every corresponding bound related by `rel` (written from the property)
fn boundwise_e(ka: u8, kb: u8, al: &E, ah: &E, bl: &E, bh: &E, rel: impl Fn(&E, &E) -> bool) -> bool {
    if ka != kb { return false; }
    match ka { 0 => rel(al, bl) && rel(ah, bh), 1 => rel(al, bl), _ => rel(ah, bh) }
}
#[kani::proof]
fn c19_abs_diff_eq_boundwise() {
    use approx::AbsDiffEq;
    let (ka, kb) = (any_kind(), any_kind());
    let (al, ah, bl, bh) = (any_e(0), any_e(1), any_e(2), any_e(3));
    let (a, b) = (iv_e(ka, al, ah), iv_e(kb, bl, bh));
    let eps = any_tol();
    let r = a.abs_diff_eq(&b, eps);
    assert!(r == boundwise_e(ka, kb, &al, &ah, &bl, &bh, |x, y| x.abs_diff_eq(y, eps)), "not kind-aware and bound-wise under the same tolerance");
    if ka != kb { assert!(!r, "different kinds related"); }
    assert!(<Interval<E> as AbsDiffEq>::default_epsilon() == E::default_epsilon());
    kani::cover!(r && ka == 0);
    kani::cover!(!r && ka == kb);
}
#[kani::proof]
fn c19_relative_eq_boundwise() {
    use approx::RelativeEq;
    let (ka, kb) = (any_kind(), any_kind());
    let (al, ah, bl, bh) = (any_e(0), any_e(1), any_e(2), any_e(3));
    let (a, b) = (iv_e(ka, al, ah), iv_e(kb, bl, bh));
    let (eps, mr) = (any_tol(), any_tol());
    let r = a.relative_eq(&b, eps, mr);
    assert!(r == boundwise_e(ka, kb, &al, &ah, &bl, &bh, |x, y| x.relative_eq(y, eps, mr)), "not kind-aware and bound-wise under the same tolerances");
    if ka != kb { assert!(!r, "different kinds related"); }
    assert!(<Interval<E> as RelativeEq>::default_max_relative() == E::default_max_relative());
    kani::cover!(r && ka == 0);
    kani::cover!(!r && ka == kb);
}
#[kani::proof]
fn c19_ulps_eq_boundwise() {
    use approx::UlpsEq;
    let (ka, kb) = (any_kind(), any_kind());
    let (al, ah, bl, bh) = (any_e(0), any_e(1), any_e(2), any_e(3));
    let (a, b) = (iv_e(ka, al, ah), iv_e(kb, bl, bh));
    let eps = any_tol();
    let mu: u32 = kani::any();
    let r = a.ulps_eq(&b, eps, mu);
    assert!(r == boundwise_e(ka, kb, &al, &ah, &bl, &bh, |x, y| x.ulps_eq(y, eps, mu)), "not kind-aware and bound-wise under the same tolerances");
    if ka != kb { assert!(!r, "different kinds related"); }
    assert!(<Interval<E> as UlpsEq>::default_max_ulps() == E::default_max_ulps());
    kani::cover!(r && ka == 0);
    kani::cover!(!r && ka == kb);
}
// with the real f32 element: reflexive, symmetric, implied by ==, on finite bounds, default tolerances
#[kani::proof]
fn c19_f32_reflexive_symmetric_two_sided() {
    use approx::{AbsDiffEq, RelativeEq, UlpsEq};
    let (a, b): (f32, f32) = (kani::any(), kani::any());
    kani::assume(a.is_finite() && b.is_finite());
    let i = Interval::TwoSided(a, b);
    let j = i;
    assert!(i.abs_diff_eq(&j, f32::default_epsilon()), "abs_diff_eq not implied by ==");
    assert!(i.relative_eq(&j, f32::default_epsilon(), f32::default_max_relative()), "relative_eq not implied by ==");
    assert!(i.ulps_eq(&j, f32::default_epsilon(), f32::default_max_ulps()), "ulps_eq not implied by ==");
    assert!(!i.abs_diff_eq(&Interval::UpperOneSided(a), f32::default_epsilon()));
    assert!(!Interval::LowerOneSided(a).relative_eq(&Interval::UpperOneSided(a), f32::default_epsilon(), f32::default_max_relative()));
    kani::cover!(a != b);
}

// Display: the element type's own formatting between the canonical delimiters.
// Marker element whose Display writes exactly one known byte; fixed-capacity sink.
#[derive(PartialEq, PartialOrd, Clone, Copy)]
struct Mark(u8);
impl core::fmt::Display for Mark {
    fn fmt(&self, f: &mut core::fmt::Formatter<'_>) -> core::fmt::Result {
        use core::fmt::Write;
        f.write_char(if self.0 == 0 { 'a' } else { 'b' })
    }
}
struct Sink { buf: [u8; 16], n: usize }
impl core::fmt::Write for Sink {
    fn write_str(&mut self, s: &str) -> core::fmt::Result {
        let b = s.as_bytes();
        let mut i = 0;
        while i < b.len() {
            if self.n >= 16 { return Err(core::fmt::Error); }
            self.buf[self.n] = b[i];
            self.n += 1;
            i += 1;
        }
        Ok(())
    }
}
fn rendered(i: &Interval<Mark>) -> Sink {
    use core::fmt::Write;
    let mut s = Sink { buf: [0; 16], n: 0 };
    let r = write!(s, "{}", i);
    assert!(r.is_ok());
    s
}
fn expect(s: &Sink, want: &[u8]) {
    assert!(s.n == want.len(), "rendered length differs");
    let mut i = 0;
    while i < want.len() { assert!(s.buf[i] == want[i], "rendered text differs"); i += 1; }
}
#[kani::proof]
#[kani::unwind(12)]
fn c19_display_two_sided() {
    let s = rendered(&Interval::TwoSided(Mark(0), Mark(1)));
    expect(&s, b"[a, b]");
    kani::cover!(true);
}
#[kani::proof]
#[kani::unwind(12)]
fn c19_display_upper() {
    let s = rendered(&Interval::UpperOneSided(Mark(0)));
    expect(&s, b"[a,->)");
    kani::cover!(true);
}
#[kani::proof]
#[kani::unwind(12)]
fn c19_display_lower() {
    let s = rendered(&Interval::LowerOneSided(Mark(1)));
    expect(&s, b"(<-,b]");
    kani::cover!(true);
}

// ---------------------------------------------------------------- thorough tier: C13 scalar operations at i16 (members probed in i32)
fn any_interval_i16(kind: u8) -> Interval<i16> {
    let a: i16 = kani::any();
    let b: i16 = kani::any();
    match kind { 0 => { kani::assume(a <= b); Interval::TwoSided(a, b) } 1 => Interval::UpperOneSided(a), _ => Interval::LowerOneSided(a) }
}
fn apply_i32(op: Op, x: i32, k: i32) -> i32 { match op { Op::Add => x + k, Op::Sub => x - k, Op::Mul => x * k, Op::Div => x / k, Op::Neg => -x } }
fn in_i16(v: i32) -> bool { -32768 <= v && v <= 32767 }
fn check_scalar_i16(op: Op, kind: u8) {
    let a = any_interval_i16(kind);
    let k: i16 = kani::any();
    if op == Op::Div { kani::assume(k != 0); }
    let bnds: [Option<i16>; 2] = match a {
        Interval::TwoSided(l, h) => [Some(l), Some(h)],
        Interval::UpperOneSided(l) => [Some(l), None],
        Interval::LowerOneSided(h) => [None, Some(h)],
    };
    for b in bnds.iter().flatten() { kani::assume(in_i16(apply_i32(op, *b as i32, k as i32))); }
    let r = match op { Op::Add => a + k, Op::Sub => a - k, Op::Mul => a * k, Op::Div => a / k, Op::Neg => -a };
    let increasing = match op { Op::Add | Op::Sub => true, Op::Mul | Op::Div => k > 0, Op::Neg => false };
    let constant = op == Op::Mul && k == 0;
    if let Interval::TwoSided(l, h) = r { assert!(l <= h); }
    match a {
        Interval::TwoSided(..) => assert!(r.is_two_sided()),
        Interval::UpperOneSided(_) => { if constant { assert!(r.is_two_sided()); } else if increasing { assert!(r.is_upper()); } else { assert!(r.is_lower()); } }
        Interval::LowerOneSided(_) => { if constant { assert!(r.is_two_sided()); } else if increasing { assert!(r.is_lower()); } else { assert!(r.is_upper()); } }
    }
    let x: i16 = kani::any();
    if a.contains(&x) && in_i16(apply_i32(op, x as i32, k as i32)) {
        assert!(r.contains(&(apply_i32(op, x as i32, k as i32) as i16)), "x in A but x op k not in A op k");
    }
    let img = |b: i16| apply_i32(op, b as i32, k as i32) as i16;
    let attained = |v: i16| bnds.iter().flatten().any(|b| img(*b) == v);
    match r {
        Interval::TwoSided(l, h) => assert!(attained(l) && attained(h)),
        Interval::UpperOneSided(l) => assert!(attained(l)),
        Interval::LowerOneSided(h) => assert!(attained(h)),
    }
    kani::cover!(k > 0);
    kani::cover!(k < 0);
}
// EXACT-UNWIND: the only loops iterate over the harness's own 2-element arrays of bounds; the code under test is loop-free and every input ranges over its whole type
macro_rules! scalar16_harnesses {
    ($($name:ident: $op:expr, $kind:expr;)*) => { $( #[kani::proof] #[kani::unwind(4)] fn $name() { check_scalar_i16($op, $kind); } )* };
}
scalar16_harnesses! {
    c13t_add_scalar_two_i16: Op::Add, 0; c13t_add_scalar_upper_i16: Op::Add, 1; c13t_add_scalar_lower_i16: Op::Add, 2;
    c13t_sub_scalar_two_i16: Op::Sub, 0; c13t_sub_scalar_upper_i16: Op::Sub, 1; c13t_sub_scalar_lower_i16: Op::Sub, 2;
    c13t_mul_scalar_two_i16: Op::Mul, 0; c13t_mul_scalar_upper_i16: Op::Mul, 1; c13t_mul_scalar_lower_i16: Op::Mul, 2;
    c13t_neg_two_i16: Op::Neg, 0; c13t_neg_upper_i16: Op::Neg, 1; c13t_neg_lower_i16: Op::Neg, 2;
}
// thorough tier: C07 at i16 with i32 probes (same statements as the i8 harnesses)
#[kani::proof]
fn c07t_contains_includes_i16() {
    let a = any_interval_i16(any_kind());
    let b = any_interval_i16(any_kind());
    let d = |i: &Interval<i16>, x: i32| match i {
        Interval::TwoSided(l, h) => (*l as i32) <= x && x <= (*h as i32),
        Interval::UpperOneSided(l) => (*l as i32) <= x,
        Interval::LowerOneSided(h) => x <= (*h as i32),
    };
    let x: i32 = kani::any();
    kani::assume(-40000 <= x && x <= 40000);
    let y: i16 = kani::any();
    assert!(a.contains(&y) == d(&a, y as i32));
    if a.includes(&b) { assert!(!d(&b, x) || d(&a, x)); }
    if !a.intersects(&b) { assert!(!(d(&a, x) && d(&b, x))); }
    assert!(a.intersects(&b) == b.intersects(&a));
    kani::cover!(a.includes(&b));
    kani::cover!(!a.intersects(&b));
}

// thorough tier: C15 at i16 (same specification as at i8, written out for i16)
fn expected_cmp_i16(a: &Interval<i16>, b: &Interval<i16>) -> Option<Ordering> {
    let lo = |i: &Interval<i16>| match i { Interval::TwoSided(l, _) | Interval::UpperOneSided(l) => Some(*l), _ => None };
    let hi = |i: &Interval<i16>| match i { Interval::TwoSided(_, h) | Interval::LowerOneSided(h) => Some(*h), _ => None };
    let same = match (a, b) {
        (Interval::TwoSided(l1, h1), Interval::TwoSided(l2, h2)) => l1 == l2 && h1 == h2,
        (Interval::UpperOneSided(l1), Interval::UpperOneSided(l2)) => l1 == l2,
        (Interval::LowerOneSided(h1), Interval::LowerOneSided(h2)) => h1 == h2,
        _ => false,
    };
    if same { Some(Ordering::Equal) }
    else if matches!((hi(a), lo(b)), (Some(h), Some(l)) if h <= l) { Some(Ordering::Less) }
    else if matches!((hi(b), lo(a)), (Some(h), Some(l)) if h <= l) { Some(Ordering::Greater) }
    else { None }
}
#[kani::proof]
fn c15t_partial_cmp_matches_spec_i16() {
    let a = any_interval_i16(any_kind());
    let b = any_interval_i16(any_kind());
    let r = a.partial_cmp(&b);
    assert!(r == expected_cmp_i16(&a, &b));
    assert!((r == Some(Ordering::Less)) == (b.partial_cmp(&a) == Some(Ordering::Greater)));
    assert!((a < b) == (r == Some(Ordering::Less)) && (a > b) == (r == Some(Ordering::Greater)));
    kani::cover!(r == Some(Ordering::Less));
    kani::cover!(r.is_none());
}
#[kani::proof]
fn c15t_transitive_i16() {
    let a = any_interval_i16(any_kind());
    let b = any_interval_i16(any_kind());
    let c = any_interval_i16(any_kind());
    if a < b && b < c { assert!(a < c); kani::cover!(true); }
}
// thorough tier: C14 constructor at i16 and i64
#[kani::proof]
fn c14t_new_wellformed_i16_i64() {
    let (l, h): (i16, i16) = (kani::any(), kani::any());
    match Interval::new(l, h) { Ok(i) => assert!(l <= h && i == Interval::TwoSided(l, h)), Err(IntervalError::InvalidBounds) => assert!(l > h), Err(_) => assert!(false) }
    let (l, h): (i64, i64) = (kani::any(), kani::any());
    match Interval::new(l, h) { Ok(i) => { assert!(l <= h && i == Interval::TwoSided(l, h)); kani::cover!(l == h); } Err(IntervalError::InvalidBounds) => { assert!(l > h); kani::cover!(true); } Err(_) => assert!(false) }
}

fn any_interval_f32(kind: u8) -> Interval<f32> {
    let a: f32 = kani::any();
    let b: f32 = kani::any();
    match kind { 0 => Interval::TwoSided(a, b), 1 => Interval::UpperOneSided(a), _ => Interval::LowerOneSided(a) }
}
// ---------------------------------------------------------------- C11: the documented panics of interval operations, and only those
#[kani::proof]
#[kani::should_panic]
fn c11_interval_add_opposite_directions_panics() {
    let (a, b): (i8, i8) = (kani::any(), kani::any());
    let flip: bool = kani::any();
    let _r = if flip { Interval::UpperOneSided(a) + Interval::LowerOneSided(b) } else { Interval::LowerOneSided(a) + Interval::UpperOneSided(b) };
    kani::cover!(true, "REACH_AFTER_REJECT");
}
#[kani::proof]
#[kani::should_panic]
fn c11_interval_sub_same_direction_panics() {
    let (a, b): (i8, i8) = (kani::any(), kani::any());
    let flip: bool = kani::any();
    let _r = if flip { Interval::UpperOneSided(a) - Interval::UpperOneSided(b) } else { Interval::LowerOneSided(a) - Interval::LowerOneSided(b) };
    kani::cover!(true, "REACH_AFTER_REJECT");
}
#[kani::proof]
#[kani::should_panic]
fn c11_relative_to_zero_reference_panics() {
    let k = any_kind();
    let r = match k {
        0 => { let (a, b): (f32, f32) = (kani::any(), kani::any()); kani::assume(a == 0.0 || b == 0.0); Interval::TwoSided(a, b) }
        1 => Interval::UpperOneSided(0.0f32),
        _ => Interval::LowerOneSided(-0.0f32),
    };
    let s = any_interval_f32(any_kind());
    let _ = s.relative_to(&r);
    kani::cover!(true, "REACH_AFTER_REJECT");
}
#[kani::proof]
#[kani::should_panic]
fn c11_relative_to_same_direction_panics() {
    let (a, b): (f32, f32) = (kani::any(), kani::any());
    kani::assume(a != 0.0 && b != 0.0 && !a.is_nan() && !b.is_nan());
    let flip: bool = kani::any();
    let _ = if flip { Interval::UpperOneSided(a).relative_to(&Interval::UpperOneSided(b)) } else { Interval::LowerOneSided(a).relative_to(&Interval::LowerOneSided(b)) };
    kani::cover!(true, "REACH_AFTER_REJECT");
}
// ... and no other combination panics (non-zero reference, not both one-sided in the same direction)
#[kani::proof]
fn c11_relative_to_total_otherwise() {
    let (ks, kr) = (any_kind(), any_kind());
    kani::assume(!((ks == 1 && kr == 1) || (ks == 2 && kr == 2)));
    let s = any_interval_f32(ks);
    let r = any_interval_f32(kr);
    let nz = |i: &Interval<f32>| match i { Interval::TwoSided(a, b) => *a != 0.0 && *b != 0.0, Interval::UpperOneSided(a) | Interval::LowerOneSided(a) => *a != 0.0 };
    kani::assume(nz(&r));
    let _ = s.relative_to(&r);
    kani::cover!(true);
}
