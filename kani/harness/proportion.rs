// Kani harnesses for src/proportion.rs (child module of `proportion`).
#![allow(unused_imports, dead_code)]
use super::*;
use crate::error::CIError;
use crate::stats::verif_kani::{any_confidence, stub_z_value, det_z_value};

fn ok_unit_interval(i: &Interval<f64>) -> bool {
    matches!(i, Interval::TwoSided(l, h) if !l.is_nan() && !h.is_nan() && l <= h && *l >= 0.0 && *h <= 1.0)
}

// ---- C11 / C02: is_significant never panics and is the documented rule
#[kani::proof]
fn c11_is_significant_total() {
    let n: usize = kani::any();
    let k: usize = kani::any();
    let r = is_significant(n, k);
    if k <= n {
        assert!(r == (n > 30 && k > 5 && n - k > 5));
    } else {
        assert!(!r, "more successes than population cannot be significant");
    }
    assert!(Stats { population: n, successes: k }.is_significant() == r);
    kani::cover!(r);
    kani::cover!(k > n);
}

// ---- C11 / C02: ci_wilson accepts exactly its documented domain (errors with their payloads), all usize counts
#[kani::proof]
#[kani::stub(crate::stats::z_value, stub_z_value)]
fn c11_ci_wilson_domain_errors() {
    let c = any_confidence();
    let n: usize = kani::any();
    let k: usize = kani::any();
    kani::assume(!(2 <= k && k <= n && n - k >= 2));
    match ci_wilson(c, n, k) {
        Err(CIError::InvalidSuccesses(a, b)) => { assert!(k > n && a == k && b == n); kani::cover!(true, "invalid successes"); }
        Err(CIError::TooFewSuccesses(a, b, _)) => { assert!(k <= n && k < 2 && a == k && b == n); kani::cover!(true, "too few successes"); }
        Err(CIError::TooFewFailures(a, b, _)) => { assert!(k <= n && k >= 2 && n - k < 2 && a == n - k && b == n); kani::cover!(true, "too few failures"); }
        _ => assert!(false, "outside the documented domain the result must be the documented error"),
    }
}
// ... and on the domain: never a panic, never NaN; for a non-negative critical value (level >= 1/2) always Ok and ordered.
// The critical value is any finite number of the given sign (assumed contract of z_value), independent of the level.
fn z_any_nonneg(_c: Confidence) -> f64 { let z: f64 = kani::any(); kani::assume(z >= 0.0 && z <= 1.0e6); z }
fn z_any_neg(_c: Confidence) -> f64 { let z: f64 = kani::any(); kani::assume(z < 0.0 && z >= -1.0e6); z }
fn any_kind_conf() -> Confidence {
    match kani::any::<u8>() % 3 { 0 => Confidence::TwoSided(0.75), 1 => Confidence::UpperOneSided(0.75), _ => Confidence::LowerOneSided(0.75) }
}
fn wilson_wellformed(max_n: usize) {
    let c = any_kind_conf();
    let n: usize = kani::any();
    let k: usize = kani::any();
    kani::assume(n <= max_n && 2 <= k && k <= n && n - k >= 2);
    match ci_wilson(c, n, k) {
        Ok(i) => {
            assert!(matches!(i, Interval::TwoSided(l, h) if !l.is_nan() && !h.is_nan() && l <= h), "Ok with NaN or inverted bounds");
            kani::cover!(true, "ok");
        }
        Err(_) => assert!(false, "on the documented domain and for a level >= 1/2 the result is an interval"),
    }
}
fn wilson_negative_z(max_n: usize) {
    let c = any_kind_conf();
    let n: usize = kani::any();
    let k: usize = kani::any();
    kani::assume(n <= max_n && 2 <= k && k <= n && n - k >= 2);
    match ci_wilson(c, n, k) {
        Ok(i) => { assert!(matches!(i, Interval::TwoSided(l, h) if !l.is_nan() && !h.is_nan() && l <= h), "Ok with NaN or inverted bounds"); kani::cover!(true, "ok"); }
        Err(CIError::IntervalError(_)) => { kani::cover!(true, "inverted bounds reported"); }
        Err(_) => assert!(false, "undocumented error variant"),
    }
}
// populations up to 10^6.  Solver behaviour on these float queries is erratic (CaDiCaL: 133 s at 10^6, 165 s at 65 536, no answer in
// 900 s at 4 096; Kissat: 99 - 132 s on all three), so the quick tier uses Kissat and the thorough tier repeats with CaDiCaL.
#[kani::proof]
#[kani::solver(kissat)]
#[kani::stub(crate::stats::z_value, z_any_nonneg)]
fn c11_ci_wilson_wellformed_on_domain() { wilson_wellformed(1_000_000); }
#[kani::proof]
#[kani::solver(kissat)]
#[kani::stub(crate::stats::z_value, z_any_neg)]
fn c11_ci_wilson_negative_critical_value() { wilson_negative_z(1_000_000); }
#[kani::proof]
#[kani::stub(crate::stats::z_value, z_any_nonneg)]
fn c11t_ci_wilson_wellformed_on_domain_cadical() { wilson_wellformed(1_000_000); }
#[kani::proof]
#[kani::stub(crate::stats::z_value, z_any_neg)]
fn c11t_ci_wilson_negative_critical_value_cadical() { wilson_negative_z(1_000_000); }

// ---- C02: the success-ratio front-end returns the interval of the counts it implies:
// for every k <= n, ci_wilson_ratio(c, n, k/n) takes the same branch with the same count as ci_wilson(c, n, k)
fn z_const(_c: Confidence) -> f64 { 1.75 }
// ci_wilson replaced by a probe that reports the counts it was called with (modular: the caller is checked against
// what it hands to the callee; ci_wilson itself is under its own contract)
fn wilson_probe(_c: Confidence, population: usize, successes: usize) -> CIResult<Interval<f64>> {
    Err(CIError::InvalidSuccesses(successes, population))
}
fn same_outcome(a: &CIResult<Interval<f64>>, b: &CIResult<Interval<f64>>) -> bool {
    match (a, b) {
        (Ok(x), Ok(y)) => x == y,
        (Err(CIError::InvalidSuccesses(p, q)), Err(CIError::InvalidSuccesses(r, s))) => p == r && q == s,
        (Err(CIError::TooFewSuccesses(p, q, _)), Err(CIError::TooFewSuccesses(r, s, _))) => p == r && q == s,
        (Err(CIError::TooFewFailures(p, q, _)), Err(CIError::TooFewFailures(r, s, _))) => p == r && q == s,
        _ => false,
    }
}
// BOUNDED: populations n <= 1024 (CBMC does not terminate on larger multipliers once `round` is involved)
#[kani::proof]
#[kani::solver(kissat)]
#[kani::stub(crate::proportion::ci_wilson, wilson_probe)]
fn c02_wilson_ratio_matches_counts() {
    let c = any_confidence();
    let n: usize = kani::any();
    let k: usize = kani::any();
    kani::assume(n >= 1 && n <= 1_024 && k >= 1 && k <= n);
    let ratio = k as f64 / n as f64;
    let r = ci_wilson_ratio(c, n, ratio);
    let want = ci_wilson(c, n, k); // under the probe: reports (k, n); natively (replay): the real interval of the counts
    assert!(same_outcome(&r, &want), "the ratio k/n does not map back to the count k");
    kani::cover!(n == 100 && k == 29);
}
// thorough tier: the same statement for populations up to 2048 (4096 was tried: 38 min, too close to the per-harness limit)
// BOUNDED: populations n <= 2048
#[kani::proof]
#[kani::solver(kissat)]
#[kani::stub(crate::proportion::ci_wilson, wilson_probe)]
fn c02t_wilson_ratio_matches_counts_2048() {
    let c = any_confidence();
    let n: usize = kani::any();
    let k: usize = kani::any();
    kani::assume(n >= 1 && n <= 2_048 && k >= 1 && k <= n);
    let ratio = k as f64 / n as f64;
    let r = ci_wilson_ratio(c, n, ratio);
    let want = ci_wilson(c, n, k);
    assert!(same_outcome(&r, &want), "the ratio k/n does not map back to the count k");
    kani::cover!(n == 2048 && k == 587);
}
#[kani::proof]
#[kani::stub(crate::stats::z_value, z_const)]
fn c02_wilson_ratio_rejects_nonpositive() {
    let c = any_confidence();
    let n: usize = kani::any();
    let r: f64 = kani::any();
    kani::assume(r <= 0.0);
    assert!(matches!(ci_wilson_ratio(c, n, r), Err(CIError::NonPositiveValue(v)) if v.to_bits() == r.to_bits()));
    kani::cover!(r == 0.0);
}

// ---- C02 / C09: counting front-ends (bounded: length <= 4) and exact merges (full usize width)
#[kani::proof]
#[kani::unwind(6)]
fn c02_counting_front_ends_bounded() {
    let data: [bool; 4] = kani::any();
    let len: usize = kani::any();
    kani::assume(len <= 4);
    let v: Vec<bool> = data[..len].to_vec();
    let mut want = Stats::default();
    let mut i = 0;
    while i < len { if data[i] { want.add_success() } else { want.add_failure() }; i += 1; }
    let mut a = Stats::default();
    a.extend(&v);
    assert!(a == want);
    let b: Stats = v.iter().copied().collect();
    assert!(b == want);
    // an iterator whose size_hint is NOT exact (a filter keeps everything but reports (0, Some(len))), and one that ends early
    let b2: Stats = v.iter().copied().filter(|_| true).collect();
    assert!(b2 == want, "from_iter must count the items the iterator yields, not what it hints");
    let keep: [bool; 4] = kani::any();
    let mut want3 = Stats::default();
    let mut j = 0;
    while j < len { if keep[j] { if data[j] { want3.add_success() } else { want3.add_failure() } }; j += 1; }
    let b3: Stats = (0..len).filter(|&j| keep[j]).map(|j| data[j]).collect();
    assert!(b3 == want3, "from_iter over a filtered iterator");
    let mut d = Stats::default();
    d.extend_if(&v, |x| *x);
    assert!(d == want);
    assert!(want.population() == len && want.successes() <= len);
    kani::cover!(len == 4 && want.successes() == 2);
}
// ---- C02: every front-end hands ci_wilson exactly the counts it implies.  ci_wilson is replaced by the probe that reports
// the (successes, population) it was called with (natively, in a replay, the real ci_wilson is used on both sides);
// `ci` / `Stats::ci`: every (n, k); the data front-ends `ci_true` / `ci_if`: BOUNDED to lengths <= 3 (the counting loops
// themselves are verified for every length by the Verus obligations ci_true / ci_if / Stats::extend / Stats::extend_if)
#[kani::proof]
#[kani::stub(crate::proportion::ci_wilson, wilson_probe)]
fn c02_count_front_ends_pass_their_counts() {
    let c = any_confidence();
    let (n, k): (usize, usize) = (kani::any(), kani::any());
    kani::assume(k <= n);
    let want = ci_wilson(c, n, k);
    assert!(same_outcome(&ci(c, n, k), &want), "proportion::ci(c, n, k) is not ci_wilson(c, n, k)");
    let st = Stats { population: n, successes: k };
    assert!(same_outcome(&st.ci(c), &want), "Stats::ci is not ci_wilson of the state's counts");
    kani::cover!(n > 10 && k == 3);
}
#[kani::proof]
#[kani::unwind(5)]
#[kani::stub(crate::proportion::ci_wilson, wilson_probe)]
fn c02_data_front_ends_pass_their_counts_bounded() {
    let c = any_confidence();
    let data: [bool; 3] = kani::any();
    let len: usize = kani::any();
    kani::assume(len <= 3);
    let v: Vec<bool> = data[..len].to_vec();
    let mut k = 0;
    let mut i = 0;
    while i < len { if data[i] { k += 1; } i += 1; }
    assert!(same_outcome(&ci_true(c, &v), &ci_wilson(c, len, k)), "ci_true does not use (len, number of true items)");
    assert!(same_outcome(&ci_if(c, &v, |x| !*x), &ci_wilson(c, len, len - k)), "ci_if does not use (len, number of items satisfying the predicate)");
    kani::cover!(len == 3 && k == 1);
}
// ---- C02 / C09 (BOUNDED, batches of length <= 3): extend / extend_if on a state that ALREADY holds observations add the
// batch's counts to it (every (population, successes) the state may hold; the loops themselves are verified for every length by
// the Verus obligations Stats::extend / Stats::extend_if)
#[kani::proof]
#[kani::unwind(5)]
fn c02_extend_accumulates_on_nonempty_state_bounded() {
    let s0 = Stats { population: kani::any(), successes: kani::any() };
    kani::assume(s0.population < usize::MAX / 4 && s0.successes <= s0.population);
    let data: [bool; 3] = kani::any();
    let len: usize = kani::any();
    kani::assume(len <= 3);
    let v: Vec<bool> = data[..len].to_vec();
    let mut k = 0;
    let mut i = 0;
    while i < len { if data[i] { k += 1; } i += 1; }
    let mut a = s0;
    a.extend(&v);
    assert!(a.population() == s0.population + len && a.successes() == s0.successes + k, "extend on a non-empty state");
    let mut b = s0;
    b.extend_if(&v, |x| *x);
    assert!(b.population() == s0.population + len && b.successes() == s0.successes + k, "extend_if on a non-empty state");
    let mut c = s0;
    c.extend_if(&v, |x| !*x);
    assert!(c.population() == s0.population + len && c.successes() == s0.successes + (len - k), "extend_if with the complementary predicate");
    kani::cover!(s0.successes > 0 && len == 3 && k == 2);
}
#[kani::proof]
fn c09_proportion_stats_merge_exact() {
    let (a, b, c): (Stats, Stats, Stats) = (
        Stats { population: kani::any(), successes: kani::any() },
        Stats { population: kani::any(), successes: kani::any() },
        Stats { population: kani::any(), successes: kani::any() });
    kani::assume(a.population < usize::MAX / 4 && b.population < usize::MAX / 4 && c.population < usize::MAX / 4);
    kani::assume(a.successes <= a.population && b.successes <= b.population && c.successes <= c.population);
    let s = a + b;
    assert!(s.population() == a.population + b.population && s.successes() == a.successes + b.successes);
    let mut t = a;
    t += b;
    assert!(t == s);
    assert!((a + b) + c == a + (b + c) && a + b == b + a);
    assert!(a + Stats::default() == a && Stats::default() + a == a);
    assert!(s.successes() <= s.population());
    kani::cover!(a.population > 0 && b.population > 0);
}
// Stats::new: the documented panic is the only one
#[kani::proof]
fn c11_proportion_stats_new_accepts() {
    let (n, k): (usize, usize) = (kani::any(), kani::any());
    kani::assume(k <= n);
    let s = Stats::new(n, k);
    assert!(s.population() == n && s.successes() == k);
    kani::cover!(true);
}
#[kani::proof]
#[kani::should_panic]
fn c11_proportion_stats_new_rejects() {
    let (n, k): (usize, usize) = (kani::any(), kani::any());
    kani::assume(k > n);
    let _s = Stats::new(n, k);
    kani::cover!(true, "REACH_AFTER_REJECT");
}

// ---- C11: the Wald variant is total: documented errors outside its domain, never a panic, Ok only well-formed
#[kani::proof]
#[kani::solver(kissat)]
#[kani::stub(crate::stats::z_value, stub_z_value)]
fn c11_ci_z_normal_total() {
    let c = any_confidence();
    let n: usize = kani::any();
    let k: usize = kani::any();
    kani::assume(n <= 65_536);
    match ci_z_normal(c, n, k) {
        Ok(i) => {
            assert!(k <= n && n >= 20, "Ok needs n*p >= 10 and n*q >= 10");
            assert!(matches!(i, Interval::TwoSided(l, h) if !l.is_nan() && !h.is_nan() && l <= h), "Ok with NaN or inverted bounds");
            kani::cover!(true, "ok");
        }
        Err(CIError::InvalidSuccesses(a, b)) => { assert!(k > n && a == k && b == n); kani::cover!(true, "invalid successes"); }
        Err(CIError::TooFewSuccesses(a, b, _)) => { assert!(k <= n && a == k && b == n); kani::cover!(true, "too few successes"); }
        Err(CIError::TooFewFailures(a, b, _)) => { assert!(k <= n && a == n - k && b == n); kani::cover!(true, "too few failures"); }
        Err(CIError::IntervalError(_)) => { kani::cover!(true, "bounds not ordered (level below 1/2 or bound beyond the natural end)"); }
        Err(_) => assert!(false, "undocumented error variant"),
    }
}
