// Kani harnesses for src/comparison.rs (child module of `comparison`).
#![allow(unused_imports, dead_code)]
use super::*;
use crate::error::CIError;
use crate::mean::verif_kani::*;
use crate::stats::verif_kani::{any_confidence, stub_t_value, stub_z_value, det_t_value, det_z_value};

// ---- C11: Unpaired::ci_mean is total.  Split by input class to keep each CBMC query small.
// (a) a sample with fewer than two observations => TooFewSamples carrying that count, whatever the sums
#[kani::proof]
#[kani::stub(crate::stats::t_value, stub_t_value)]
#[kani::stub(crate::stats::z_value, stub_z_value)]
fn c11_unpaired_too_few_samples_f32() {
    let u = Unpaired { stats_a: any_arith_f32(), stats_b: any_arith_f32() };
    let (na, nb) = (u.stats_a.sample_count(), u.stats_b.sample_count());
    kani::assume(na < 2 || nb < 2);
    kani::assume(na <= 4 && nb <= 4);
    let r = u.ci_mean(any_confidence());
    assert!(matches!(r, Err(CIError::TooFewSamples(n)) if (n == na && na < 2) || (n == nb && nb < 2)), "fewer than two observations must be TooFewSamples");
    kani::cover!(na == 0);
    kani::cover!(na >= 2 && nb == 1);
}
// (b) both samples large enough: Ok only with non-NaN ordered bounds of the right kind; never TooFewSamples; never a panic
#[kani::proof]
#[kani::stub(crate::stats::t_value, stub_t_value)]
#[kani::stub(crate::stats::z_value, stub_z_value)]
fn c11_unpaired_ci_mean_wellformed_f32() {
    let u = Unpaired { stats_a: any_arith_f32(), stats_b: any_arith_f32() };
    let c = any_confidence();
    let (na, nb) = (u.stats_a.sample_count(), u.stats_b.sample_count());
    kani::assume(na >= 2 && nb >= 2 && na <= 65_536 && nb <= 65_536);
    match u.ci_mean(c) {
        Ok(i) => {
            assert!(ok_interval_f32(&i), "Ok with a NaN bound or lower > upper");
            assert!(kind_matches(&c, &i));
            kani::cover!(true, "ok path");
        }
        Err(CIError::TooFewSamples(_)) => assert!(false, "both samples have two observations or more"),
        Err(_) => { kani::cover!(true, "other error"); }
    }
}
// ---- C11: Paired::ci_mean is the Arithmetic one (total by c11_arithmetic_ci_mean_total_*); kinds and errors pass through
#[kani::proof]
#[kani::stub(crate::stats::t_value, stub_t_value)]
#[kani::stub(crate::stats::z_value, stub_z_value)]
fn c11_paired_ci_mean_total_f32() {
    let p = Paired { stats: any_arith_f32() };
    let c = any_confidence();
    match p.ci_mean(c) {
        Ok(i) => { assert!(p.sample_count() >= 2 && ok_interval_f32(&i) && kind_matches(&c, &i)); kani::cover!(true, "ok"); }
        Err(CIError::TooFewSamples(n)) => { assert!(p.sample_count() < 2 && n == p.sample_count()); kani::cover!(true, "too few"); }
        Err(_) => { assert!(p.sample_count() >= 2); kani::cover!(true, "other"); }
    }
}

// ---- C04 (bounded): Paired::extend over two sequences = append_pair in order; unequal lengths are rejected with both lengths
#[kani::proof]
#[kani::unwind(6)]
fn c04_paired_extend_lengths_bounded() {
    let a: [f32; 4] = [1.0, 2.0, 4.0, 8.0];
    let b: [f32; 4] = [0.5, 0.25, 3.0, 1.0];
    let la: usize = kani::any();
    let lb: usize = kani::any();
    kani::assume(la <= 4 && lb <= 4);
    let (va, vb): (Vec<f32>, Vec<f32>) = (a[..la].to_vec(), b[..lb].to_vec());
    let mut p = Paired::<f32>::default();
    let r = p.extend(&va, &vb);
    if la == lb {
        assert!(r.is_ok());
        let mut q = Paired::<f32>::default();
        let mut i = 0;
        while i < la { assert!(q.append_pair(a[i], b[i]).is_ok()); i += 1; }
        assert!(arith_bits_f32(&p.stats) == arith_bits_f32(&q.stats), "extend differs from append_pair in order");
        assert!(p.sample_count() == la);
        // tuples
        let mut tv: Vec<(f32, f32)> = Vec::new();
        let mut i = 0;
        while i < la { tv.push((a[i], b[i])); i += 1; }
        let mut t = Paired::<f32>::default();
        assert!(t.extend_tuple(&tv).is_ok());
        assert!(arith_bits_f32(&t.stats) == arith_bits_f32(&q.stats), "extend_tuple differs from append_pair in order");
        kani::cover!(la == 4);
        kani::cover!(la == 0);
    } else {
        assert!(matches!(r, Err(CIError::DifferentSampleSizes(x, y)) if x == la && y == lb), "lengths not reported as (|a|, |b|)");
        kani::cover!(la > lb);
        kani::cover!(la < lb);
    }
}
// thorough tier: lengths up to 7 (only the count and the error payload are compared: cheap at any length)
#[kani::proof]
#[kani::unwind(9)]
fn c04t_paired_extend_lengths_7_bounded() {
    let a: [f32; 7] = [1.0, 2.0, 4.0, 8.0, 16.0, 32.0, 64.0];
    let b: [f32; 7] = [0.5, 0.25, 3.0, 1.0, 7.0, 9.0, 11.0];
    let la: usize = kani::any();
    let lb: usize = kani::any();
    kani::assume(la <= 7 && lb <= 7);
    let (va, vb): (Vec<f32>, Vec<f32>) = (a[..la].to_vec(), b[..lb].to_vec());
    let mut p = Paired::<f32>::default();
    let r = p.extend(&va, &vb);
    if la == lb {
        assert!(r.is_ok() && p.sample_count() == la);
        kani::cover!(la == 7);
    } else {
        assert!(matches!(r, Err(CIError::DifferentSampleSizes(x, y)) if x == la && y == lb), "lengths not reported as (|a|, |b|)");
        kani::cover!(la == lb + 1);
        kani::cover!(lb == la + 1);
    }
}
// C09 (bounded): extend on a state that already holds data continues the accumulation (chunked feeding = batch)
#[kani::proof]
#[kani::unwind(6)]
fn c09_paired_extend_accumulates_bounded() {
    let a: [f32; 3] = [2.0, 4.0, 8.0];
    let b: [f32; 3] = [0.25, 3.0, 1.0];
    let len: usize = kani::any();
    kani::assume(len <= 3);
    let (va, vb): (Vec<f32>, Vec<f32>) = (a[..len].to_vec(), b[..len].to_vec());
    // prior contents: one pair fed pair by pair, one by tuple
    let mut p = Paired::<f32>::default();
    assert!(p.append_pair(1.0, 0.5).is_ok());
    assert!(p.extend_tuple(&vec![(3.0f32, 1.5f32)]).is_ok());
    let mut q = p.clone();
    assert!(p.extend(&va, &vb).is_ok());
    let mut i = 0;
    while i < len { assert!(q.append_pair(a[i], b[i]).is_ok()); i += 1; }
    assert!(arith_bits_f32(&p.stats) == arith_bits_f32(&q.stats), "extend on a non-empty state differs from continuing pair by pair");
    assert!(p.sample_count() == 2 + len);
    // a failed extend (unequal lengths) reports the lengths of the arguments, not of the state
    let mut r = q.clone();
    let e = r.extend(&va, &vec![9.0f32; 4]);
    assert!(matches!(e, Err(CIError::DifferentSampleSizes(x, y)) if x == len && y == 4));
    kani::cover!(len == 3);
    kani::cover!(len == 0);
}
// C04 / C09 (concrete samples of different sizes, exactly representable values): whichever way an Unpaired state is fed --
// from_iter, extend, extend_a + extend_b, element by element, append_pair for the common prefix -- sample A goes to stats_a and
// sample B to stats_b, nothing else changes, and the state is the one two separate arithmetic states would hold (the frames
// of these functions are verified for every input by the Verus obligations Unpaired::*; this is their twin on the compiled crate)
#[kani::proof]
#[kani::unwind(6)]
fn c04_unpaired_feeding_routes_concrete() {
    use crate::mean::StatisticsOps;
    let a: Vec<f32> = vec![2.0, 4.0, 8.0];
    let b: Vec<f32> = vec![0.25, 3.0];
    let mut wa = mean::Arithmetic::<f32>::default();
    let mut wb = mean::Arithmetic::<f32>::default();
    let mut i = 0;
    while i < 3 { assert!(wa.append(a[i]).is_ok()); i += 1; }
    let mut j = 0;
    while j < 2 { assert!(wb.append(b[j]).is_ok()); j += 1; }
    let same = |u: &Unpaired<f32>| arith_bits_f32(&u.stats_a) == arith_bits_f32(&wa) && arith_bits_f32(&u.stats_b) == arith_bits_f32(&wb);
    let u1 = Unpaired::<f32>::from_iter(&a, &b);
    assert!(matches!(&u1, Ok(u) if same(u)), "from_iter");
    let mut u2 = Unpaired::<f32>::default();
    assert!(u2.extend(&a, &b).is_ok() && same(&u2), "extend");
    let mut u3 = Unpaired::<f32>::default();
    assert!(u3.extend_b(&b).is_ok() && arith_bits_f32(&u3.stats_a) == arith_bits_f32(&mean::Arithmetic::<f32>::default()), "extend_b must not touch sample A");
    assert!(u3.extend_a(&a).is_ok() && same(&u3), "extend_a / extend_b");
    let mut u4 = Unpaired::<f32>::default();
    assert!(u4.append_pair(a[0], b[0]).is_ok() && u4.append_pair(a[1], b[1]).is_ok() && u4.append_a(a[2]).is_ok() && same(&u4), "append_pair / append_a");
    let mut u5 = Unpaired::<f32>::default();
    assert!(u5.append_b(b[0]).is_ok() && u5.stats_a.sample_count() == 0 && u5.stats_b.sample_count() == 1, "append_b must not touch sample A");
    let u6 = Unpaired::new(wa, wb);
    assert!(same(&u6) && arith_bits_f32(u6.stats_a()) == arith_bits_f32(&wa) && arith_bits_f32(u6.stats_b()) == arith_bits_f32(&wb), "new / stats_a / stats_b");
    kani::cover!(true);
}
// C09 (concrete, exactly representable data): + and += on Paired / Unpaired states merge component-wise (sample A with
// sample A, sample B with sample B), the empty state is neutral
#[kani::proof]
#[kani::unwind(6)]
fn c09_comparison_states_merge_concrete() {
    let mut p1 = Paired::<f32>::default();
    let mut p2 = Paired::<f32>::default();
    let mut pw = Paired::<f32>::default();
    assert!(p1.append_pair(4.0, 1.0).is_ok() && p1.append_pair(2.0, 1.0).is_ok() && p2.append_pair(8.0, 0.0).is_ok());
    assert!(pw.append_pair(4.0, 1.0).is_ok() && pw.append_pair(2.0, 1.0).is_ok() && pw.append_pair(8.0, 0.0).is_ok());
    let vals = |a: &mean::Arithmetic<f32>| arith_values_f32(a);
    assert!(vals(&(p1.clone() + p2.clone()).stats) == vals(&pw.stats) && vals(&(p2.clone() + p1.clone()).stats) == vals(&pw.stats), "Paired +");
    let mut p3 = p1.clone();
    p3 += p2.clone();
    assert!(vals(&p3.stats) == vals(&pw.stats), "Paired +=");
    assert!(vals(&(pw.clone() + Paired::<f32>::default()).stats) == vals(&pw.stats) && vals(&(Paired::<f32>::default() + pw.clone()).stats) == vals(&pw.stats), "empty Paired state is neutral");
    let mut u1 = Unpaired::<f32>::default();
    let mut u2 = Unpaired::<f32>::default();
    let mut uw = Unpaired::<f32>::default();
    assert!(u1.append_a(2.0).is_ok() && u1.append_b(0.5).is_ok() && u2.append_a(4.0).is_ok() && u2.append_a(8.0).is_ok() && u2.append_b(3.0).is_ok());
    assert!(uw.append_a(2.0).is_ok() && uw.append_a(4.0).is_ok() && uw.append_a(8.0).is_ok() && uw.append_b(0.5).is_ok() && uw.append_b(3.0).is_ok());
    let m = u1.clone() + u2.clone();
    assert!(vals(&m.stats_a) == vals(&uw.stats_a) && vals(&m.stats_b) == vals(&uw.stats_b), "Unpaired + merges A with A and B with B");
    let mut u3 = u1.clone();
    u3 += u2.clone();
    assert!(vals(&u3.stats_a) == vals(&uw.stats_a) && vals(&u3.stats_b) == vals(&uw.stats_b), "Unpaired +=");
    // a partial state that only saw one of the samples (late-arriving B observations, and the mirror case)
    let mut only_b = Unpaired::<f32>::default();
    let mut only_a = Unpaired::<f32>::default();
    assert!(only_b.append_b(3.0).is_ok() && only_a.append_a(4.0).is_ok() && only_a.append_a(8.0).is_ok());
    let mut u4 = Unpaired::<f32>::default();
    assert!(u4.append_a(2.0).is_ok() && u4.append_b(0.5).is_ok());
    let u5 = (u4.clone() + only_b.clone()) + only_a.clone();
    assert!(vals(&u5.stats_a) == vals(&uw.stats_a) && vals(&u5.stats_b) == vals(&uw.stats_b), "Unpaired + with one-sample-only partial states");
    u4 += only_b.clone();
    u4 += only_a.clone();
    assert!(vals(&u4.stats_a) == vals(&uw.stats_a) && vals(&u4.stats_b) == vals(&uw.stats_b), "Unpaired += with one-sample-only partial states");
    let z = uw.clone() + Unpaired::<f32>::default();
    assert!(vals(&z.stats_a) == vals(&uw.stats_a) && vals(&z.stats_b) == vals(&uw.stats_b), "empty Unpaired state is neutral");
    kani::cover!(true);
}
// the sign of the difference: a_i - b_i (symbolic values, one pair)
#[kani::proof]
fn c04_paired_append_pair_is_a_minus_b() {
    let mut p = Paired { stats: any_arith_f32() };
    kani::assume(p.stats.sample_count() < usize::MAX);
    let q = p.stats;
    let (a, b): (f32, f32) = (kani::any(), kani::any());
    kani::assume(a.is_finite() && b.is_finite());
    assert!(p.append_pair(a, b).is_ok());
    // the same single step on the inner state with the difference a - b
    let d = a - b;
    let mut one = Paired { stats: q };
    assert!(one.append_pair(d, 0.0).is_ok());
    assert!(p.sample_count() == one.sample_count());
    kani::cover!(a > b);
}
