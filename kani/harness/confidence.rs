// Kani harnesses for src/confidence.rs (mounted as a child module of `confidence`).
// Property C18: Confidence values are valid by construction and obey their algebraic laws.
use super::*;
use crate::error::CIError;
use core::cmp::Ordering;

fn valid(x: f64) -> bool {
    x > 0. && x < 1.
}

// any Confidence, including ones the constructors would refuse (the enum's
// variants are public, so such values can be written by a user)
fn any_conf_raw() -> Confidence {
    let l: f64 = kani::any();
    match kani::any::<u8>() % 3 {
        0 => Confidence::TwoSided(l),
        1 => Confidence::UpperOneSided(l),
        _ => Confidence::LowerOneSided(l),
    }
}

#[kani::proof]
fn c18_new_two_sided_accepts() {
    let x: f64 = kani::any();
    kani::assume(valid(x));
    let c = Confidence::new_two_sided(x);
    assert!(matches!(c, Confidence::TwoSided(l) if l.to_bits() == x.to_bits()));
    let c = Confidence::new(x);
    assert!(matches!(c, Confidence::TwoSided(l) if l.to_bits() == x.to_bits()));
    kani::cover!(true);
}
#[kani::proof]
fn c18_new_upper_accepts() {
    let x: f64 = kani::any();
    kani::assume(valid(x));
    let c = Confidence::new_upper(x);
    assert!(matches!(c, Confidence::UpperOneSided(l) if l.to_bits() == x.to_bits()));
    kani::cover!(true);
}
#[kani::proof]
fn c18_new_lower_accepts() {
    let x: f64 = kani::any();
    kani::assume(valid(x));
    let c = Confidence::new_lower(x);
    assert!(matches!(c, Confidence::LowerOneSided(l) if l.to_bits() == x.to_bits()));
    kani::cover!(true);
}

// "never returns on an invalid level": the harness must panic (should_panic)
// and the cover after the call must be unreachable.
#[kani::proof]
#[kani::should_panic]
fn c18_new_rejects() {
    let x: f64 = kani::any();
    kani::assume(!valid(x));
    let _c = Confidence::new(x);
    kani::cover!(true, "REACH_AFTER_REJECT");
}
#[kani::proof]
#[kani::should_panic]
fn c18_new_two_sided_rejects() {
    let x: f64 = kani::any();
    kani::assume(!valid(x));
    let _c = Confidence::new_two_sided(x);
    kani::cover!(true, "REACH_AFTER_REJECT");
}
#[kani::proof]
#[kani::should_panic]
fn c18_new_upper_rejects() {
    let x: f64 = kani::any();
    kani::assume(!valid(x));
    let _c = Confidence::new_upper(x);
    kani::cover!(true, "REACH_AFTER_REJECT");
}
#[kani::proof]
#[kani::should_panic]
fn c18_new_lower_rejects() {
    let x: f64 = kani::any();
    kani::assume(!valid(x));
    let _c = Confidence::new_lower(x);
    kani::cover!(true, "REACH_AFTER_REJECT");
}

#[kani::proof]
fn c18_try_from_f64() {
    let x: f64 = kani::any();
    match Confidence::try_from(x) {
        Ok(c) => {
            assert!(valid(x));
            assert!(matches!(c, Confidence::TwoSided(l) if l.to_bits() == x.to_bits()));
            kani::cover!(true, "ok path");
        }
        Err(CIError::InvalidConfidenceLevel(y)) => {
            assert!(!valid(x));
            assert!(y.to_bits() == x.to_bits());
            kani::cover!(true, "err path");
        }
        Err(_) => assert!(false, "wrong error variant"),
    }
}

#[kani::proof]
fn c18_try_from_f32() {
    let x: f32 = kani::any();
    let ok = x > 0. && x < 1.;
    match Confidence::try_from(x) {
        Ok(c) => {
            assert!(ok);
            assert!(matches!(c, Confidence::TwoSided(l) if l.to_bits() == (x as f64).to_bits()));
            kani::cover!(true, "ok path");
        }
        Err(CIError::InvalidConfidenceLevel(y)) => {
            assert!(!ok);
            assert!(y.to_bits() == (x as f64).to_bits());
            kani::cover!(true, "err path");
        }
        Err(_) => assert!(false, "wrong error variant"),
    }
}

#[kani::proof]
fn c18_accessors_consistent() {
    let c = any_conf_raw();
    let l = match c {
        Confidence::TwoSided(l) | Confidence::UpperOneSided(l) | Confidence::LowerOneSided(l) => l,
    };
    assert!(c.level().to_bits() == l.to_bits());
    assert!(c.percent().to_bits() == (l * 100.).to_bits());
    let two = matches!(c, Confidence::TwoSided(_));
    let up = matches!(c, Confidence::UpperOneSided(_));
    let lo = matches!(c, Confidence::LowerOneSided(_));
    assert!(c.is_two_sided() == two);
    assert!(c.is_upper() == up);
    assert!(c.is_lower() == lo);
    assert!(c.is_one_sided() == !two);
    // exactly one of the three
    assert!((c.is_two_sided() as u8) + (c.is_upper() as u8) + (c.is_lower() as u8) == 1);
    kani::cover!(two);
    kani::cover!(up);
    kani::cover!(lo);
}

#[kani::proof]
#[kani::unwind(20)]
fn c18_kind_string() {
    let c = any_conf_raw();
    let k = c.kind();
    match c {
        Confidence::TwoSided(_) => assert!(k == "two-sided"),
        Confidence::UpperOneSided(_) => assert!(k == "upper one-sided"),
        Confidence::LowerOneSided(_) => assert!(k == "lower one-sided"),
    }
    kani::cover!(true);
}

#[kani::proof]
fn c18_flipped() {
    let c = any_conf_raw();
    let f = c.flipped();
    assert!(f.level().to_bits() == c.level().to_bits());
    match c {
        Confidence::TwoSided(_) => assert!(f.is_two_sided()),
        Confidence::UpperOneSided(_) => assert!(f.is_lower()),
        Confidence::LowerOneSided(_) => assert!(f.is_upper()),
    }
    let ff = f.flipped();
    assert!(ff.level().to_bits() == c.level().to_bits());
    assert!(ff.is_two_sided() == c.is_two_sided());
    assert!(ff.is_upper() == c.is_upper());
    assert!(ff.is_lower() == c.is_lower());
    kani::cover!(c.is_upper());
}

fn same_kind(a: &Confidence, b: &Confidence) -> bool {
    matches!(
        (a, b),
        (Confidence::TwoSided(_), Confidence::TwoSided(_))
            | (Confidence::UpperOneSided(_), Confidence::UpperOneSided(_))
            | (Confidence::LowerOneSided(_), Confidence::LowerOneSided(_))
    )
}

#[kani::proof]
fn c18_partial_cmp() {
    let a = any_conf_raw();
    let b = any_conf_raw();
    let r = a.partial_cmp(&b);
    if same_kind(&a, &b) {
        assert!(r == a.level().partial_cmp(&b.level()));
    } else {
        assert!(r.is_none());
    }
    // ordered exactly when same kind (for valid levels)
    if valid(a.level()) && valid(b.level()) {
        assert!(r.is_some() == same_kind(&a, &b));
        if same_kind(&a, &b) {
            assert!((r == Some(Ordering::Less)) == (a.level() < b.level()));
            assert!((r == Some(Ordering::Greater)) == (a.level() > b.level()));
            assert!((r == Some(Ordering::Equal)) == (a.level() == b.level()));
        }
        // the comparison operators agree
        assert!((a < b) == (r == Some(Ordering::Less)));
        assert!((a > b) == (r == Some(Ordering::Greater)));
        kani::cover!(r == Some(Ordering::Less));
        kani::cover!(r.is_none());
    }
}

#[kani::proof]
fn c18_eq() {
    let a = any_conf_raw();
    let b = any_conf_raw();
    assert!((a == b) == (same_kind(&a, &b) && a.level() == b.level()));
    if valid(a.level()) && valid(b.level()) {
        // equality consistent with the order
        assert!((a == b) == (a.partial_cmp(&b) == Some(Ordering::Equal)));
        let c = a; // Copy
        assert!(c == a);
        kani::cover!(a == b);
        kani::cover!(a != b && same_kind(&a, &b));
    }
}

#[kani::proof]
fn c18_quantile_in_unit_interval() {
    let x: f64 = kani::any();
    kani::assume(valid(x));
    let q2 = Confidence::TwoSided(x).quantile();
    assert!(q2 >= 0.5 && q2 <= 1.0);
    assert!(Confidence::UpperOneSided(x).quantile().to_bits() == x.to_bits());
    assert!(Confidence::LowerOneSided(x).quantile().to_bits() == x.to_bits());
    kani::cover!(true);
}
