// Kani harnesses for src/quantile.rs (child module of `quantile`).
#![allow(unused_imports, dead_code)]
use super::*;
use crate::error::CIError;
use crate::stats::verif_kani::{any_confidence, stub_z_value};

// ---- C03 / C11: Stats::index is in range for every population and every f64 (NaN included)
#[kani::proof]
fn c11_quantile_index_total() {
    let n: usize = kani::any();
    let q: f64 = kani::any();
    kani::assume(n <= (1usize << 40));
    match (Stats { population: n }).index(q) {
        Ok(i) => {
            assert!(n > 0 && i < n, "rank out of range");
            assert!(q >= 0.0 && q <= 1.0, "Ok for a quantile outside [0,1] (or NaN)");
            kani::cover!(i == n - 1);
        }
        Err(CIError::TooFewSamples(m)) => { assert!(n == 0 && m == 0); kani::cover!(true, "empty"); }
        Err(CIError::InvalidQuantile(v)) => { assert!(n > 0 && !(q >= 0.0 && q <= 1.0) && v.to_bits() == q.to_bits()); kani::cover!(q.is_nan()); }
        Err(_) => assert!(false, "undocumented error variant"),
    }
}
// ---- C03: Stats::index is the rank min(floor(q n), n - 1), stated through the defining inequalities of floor (no second
// copy of the computation): i <= q*n < i + 1, or i = n - 1 <= q*n when capped.  All f64 quantiles in [0,1], populations to 2^40.
#[kani::proof]
fn c03_index_is_capped_floor() {
    let n: usize = kani::any();
    let q: f64 = kani::any();
    kani::assume(1 <= n && n <= (1usize << 40) && q >= 0.0 && q <= 1.0);
    let i = (Stats { population: n }).index(q).unwrap();
    let x = q * n as f64;
    let fi = i as f64;
    if i < n - 1 {
        assert!(fi <= x && x < fi + 1.0, "rank is not floor(q n)");
    } else {
        assert!(fi <= x, "rank capped at n - 1 although floor(q n) is smaller");
    }
    kani::cover!(i < n - 1 && x == fi, "q n integral");
    kani::cover!(i == n - 1);
}
// ---- C11: Stats::ci / ci_indices: documented error order, ranks in range and ordered.
// Modular: proportion::ci_wilson is replaced by a stub that returns exactly what its own verified contract allows
// (c11_ci_wilson_domain_and_wellformed + Verus `ci_wilson ensures r == wilson_spec`): the documented errors on the documented
// domain, otherwise Ok([l, h]) with non-NaN l <= h (h = 1 / l = 0 for the one-sided forms), or InvalidBounds when the level is < 1/2.
fn wilson_contract_stub(c: Confidence, n: usize, k: usize) -> CIResult<Interval<f64>> {
    if k > n { return Err(CIError::InvalidSuccesses(k, n)); }
    if k < 2 { return Err(CIError::TooFewSuccesses(k, n, k as f64)); }
    if n - k < 2 { return Err(CIError::TooFewFailures(n - k, n, (n - k) as f64)); }
    if c.quantile() < 0.5 && kani::any() { return Err(CIError::IntervalError(crate::error::IntervalError::InvalidBounds)); }
    let (mut l, mut h): (f64, f64) = (kani::any(), kani::any());
    match c { Confidence::UpperOneSided(_) => h = 1.0, Confidence::LowerOneSided(_) => l = 0.0, _ => {} }
    kani::assume(!l.is_nan() && !h.is_nan() && l <= h);
    Ok(Interval::TwoSided(l, h))
}
#[kani::proof]
#[kani::solver(kissat)]
#[kani::stub(crate::proportion::ci_wilson, wilson_contract_stub)]
fn c11_quantile_ci_total() {
    let n: usize = kani::any();
    let q: f64 = kani::any();
    let c = any_confidence();
    kani::assume(n <= (1usize << 20));
    let r = ci_indices(c, n, q);
    if !(q > 0.0 && q < 1.0) {
        assert!(matches!(r, Err(CIError::InvalidQuantile(v)) if v.to_bits() == q.to_bits()), "quantile outside (0,1) (NaN included) must be InvalidQuantile");
        kani::cover!(q.is_nan());
    } else if n < 4 {
        assert!(matches!(r, Err(CIError::TooFewSamples(m)) if m == n));
        kani::cover!(n == 3);
    } else {
        match r {
            Ok(Interval::TwoSided(lo, hi)) => { assert!(matches!(c, Confidence::TwoSided(_)) && lo <= hi && hi < n); kani::cover!(true, "two-sided ok"); }
            Ok(Interval::UpperOneSided(lo)) => { assert!(matches!(c, Confidence::UpperOneSided(_)) && lo < n); }
            Ok(Interval::LowerOneSided(hi)) => { assert!(matches!(c, Confidence::LowerOneSided(_)) && hi < n); }
            Err(CIError::TooFewSuccesses(..)) | Err(CIError::TooFewFailures(..)) => { kani::cover!(true, "too few"); }
            Err(CIError::IndexError(..)) => { kani::cover!(true, "bound outside [0,1]"); }
            Err(CIError::IntervalError(_)) => {}
            Err(_) => assert!(false, "undocumented error variant"),
        }
    }
}
// ---- C11: the pre-sorted entry point rejects a quantile outside (0,1) with InvalidQuantile (no assert panic)
#[kani::proof]
#[kani::stub(crate::stats::z_value, stub_z_value)]
fn c11_quantile_sorted_unchecked_invalid_quantile() {
    let data: [u8; 5] = [1, 2, 3, 4, 5];
    let q: f64 = kani::any();
    kani::assume(!(q > 0.0 && q < 1.0));
    let r = ci_sorted_unchecked(any_confidence(), &data, q);
    assert!(matches!(r, Err(CIError::InvalidQuantile(v)) if v.to_bits() == q.to_bits()));
    kani::cover!(q == 1.5);
}

// ---- C03 (BOUNDED, n <= 6, u8 elements with ties): the element-level entry points
fn z_const(_c: Confidence) -> f64 { 1.0 }
fn z_two(_c: Confidence) -> f64 { 2.0 }
fn is_sorted(a: &[u8]) -> bool { let mut i = 1; while i < a.len() { if a[i - 1] > a[i] { return false; } i += 1; } true }
#[kani::proof]
#[kani::unwind(8)]
#[kani::stub(crate::stats::z_value, z_const)]
fn c03_sorted_unchecked_is_order_statistics_bounded() {
    let data: [u8; 6] = kani::any();
    kani::assume(is_sorted(&data));
    let c = any_confidence();
    let q: f64 = kani::any();
    kani::assume(q > 0.0 && q < 1.0);
    let idx = ci_indices(c, 6, q);
    let r = ci_sorted_unchecked(c, &data, q);
    match (idx, r) {
        (Ok(Interval::TwoSided(i, j)), Ok(Interval::TwoSided(a, b))) => { assert!(a == data[i] && b == data[j]); kani::cover!(true, "two-sided"); }
        (Ok(Interval::UpperOneSided(i)), Ok(Interval::UpperOneSided(a))) => assert!(a == data[i]),
        (Ok(Interval::LowerOneSided(j)), Ok(Interval::LowerOneSided(b))) => assert!(b == data[j]),
        (Err(_), Err(_)) => { kani::cover!(true, "rejected"); }
        _ => assert!(false, "element-level and index-level entry points disagree"),
    }
}
// data order does not matter; ci and ci_max_size agree; result elements come from the sample
#[kani::proof]
#[kani::unwind(8)]
#[kani::stub(crate::stats::z_value, z_const)]
fn c03_ci_is_order_independent_bounded() {
    let data: [u8; 5] = kani::any();
    let (i, j): (usize, usize) = (kani::any(), kani::any());
    kani::assume(i < 5 && j < 5);
    let mut swapped = data;
    swapped.swap(i, j); // transpositions generate all permutations
    let c = Confidence::TwoSided(0.5);
    let q = 0.5;
    let (r1, r2) = (ci(c, &data, q), ci(c, &swapped, q));
    let r3 = ci_max_size::<u8, _, 5>(c, &data, q);
    match (r1, r2, r3) {
        (Ok(a), Ok(b), Ok(d)) => {
            assert!(a == b, "result depends on the order of the data");
            assert!(a == d, "ci and ci_max_size disagree");
            if let Interval::TwoSided(l, h) = a {
                assert!(data.contains(&l) && data.contains(&h) && l <= h);
            }
            kani::cover!(i != j);
        }
        (Err(_), Err(_), Err(_)) => {}
        _ => assert!(false, "entry points disagree on acceptance"),
    }
}
// C03 (BOUNDED, n = 4, every u8 sample, every confidence kind): ci on the data as given == ci_sorted_unchecked on the ascending
// copy (a 5-comparator sorting network written out here, loop-free) -- one call of `ci` only, so that CBMC also finishes when
// the sort inside `ci` is replaced by something heavier (selection); the lower Wilson rank is 0 here (p_lo * 4 < 1)
fn cswap(a: &mut [u8; 4], i: usize, j: usize) { if a[i] > a[j] { let t = a[i]; a[i] = a[j]; a[j] = t; } }
#[kani::proof]
#[kani::unwind(6)]
#[kani::stub(crate::stats::z_value, z_const)]
fn c03_ci_is_order_statistics_n4_bounded() {
    let data: [u8; 4] = kani::any();
    let mut s = data;
    cswap(&mut s, 0, 1); cswap(&mut s, 2, 3); cswap(&mut s, 0, 2); cswap(&mut s, 1, 3); cswap(&mut s, 1, 2);
    let c = any_confidence();
    let want = ci_sorted_unchecked(c, &s, 0.5);
    let got = ci(c, &data, 0.5);
    match (want, got) {
        (Ok(x), Ok(y)) => { assert!(x == y, "ci is not the order statistics of the sample (n = 4)"); kani::cover!(data[0] > data[3] && x.is_two_sided()); }
        (Err(_), Err(_)) => {}
        _ => assert!(false, "ci and ci_sorted_unchecked disagree on acceptance (n = 4)"),
    }
}
#[kani::proof]
fn c09_quantile_stats_merge_exact() {
    let (a, b, c): (usize, usize, usize) = (kani::any(), kani::any(), kani::any());
    kani::assume(a < usize::MAX / 4 && b < usize::MAX / 4 && c < usize::MAX / 4);
    let (sa, sb, sc) = (Stats::new(a), Stats::new(b), Stats::new(c));
    assert!((sa + sb) == Stats::new(a + b));
    let mut t = sa;
    t += sb;
    assert!(t == sa + sb);
    assert!((sa + sb) + sc == sa + (sb + sc) && sa + sb == sb + sa && sa + Stats::default() == sa);
    kani::cover!(a > 0);
}

// C03 (BOUNDED, n = 20 distinct values, any single transposition of the sorted order, low-tail quantile): sizes above the
// small-slice cutoffs of the std sorting / selection routines, where the lower Wilson rank is 0
#[kani::proof]
#[kani::unwind(22)]
#[kani::stub(crate::stats::z_value, z_two)]
fn c03_ci_order_independent_n20_bounded() {
    let mut data: [u8; 20] = [0; 20];
    let mut i = 0;
    while i < 20 { data[i] = (3 * i + 1) as u8; i += 1; }
    let sorted = data;
    let (a, b): (usize, usize) = (kani::any(), kani::any());
    kani::assume(a < 20 && b < 20);
    data.swap(a, b);
    let c = Confidence::TwoSided(0.5);
    let q = 0.1;
    let want = ci_sorted_unchecked(c, &sorted, q);
    let got = ci(c, &data, q);
    assert!(matches!((&want, &got), (Ok(x), Ok(y)) if x == y), "result depends on the order of the data (n = 20)");
    let idx = ci_indices(c, 20, q);
    assert!(matches!(idx, Ok(Interval::TwoSided(0, _))), "this configuration is meant to exercise rank 0");
    kani::cover!(a == 0 && b == 19);
}

// ---- C11: documented panics of the sort-based entry points: incomparable elements, capacity overflow
#[kani::proof]
#[kani::should_panic]
#[kani::unwind(8)]
#[kani::stub(crate::stats::z_value, z_const)]
fn c11_quantile_ci_incomparable_panics() {
    let data: [f32; 4] = [1.0, f32::NAN, 3.0, 2.0];
    let _ = ci(Confidence::TwoSided(0.5), &data, 0.5);
    kani::cover!(true, "REACH_AFTER_REJECT");
}
#[kani::proof]
#[kani::should_panic]
#[kani::unwind(8)]
#[kani::stub(crate::stats::z_value, z_const)]
fn c11_quantile_ci_max_size_capacity_panics() {
    let data: [u8; 5] = kani::any();
    let _ = ci_max_size::<u8, _, 4>(Confidence::TwoSided(0.5), &data, 0.5);
    kani::cover!(true, "REACH_AFTER_REJECT");
}
