// Kani stubs for src/stats.rs: assumed contracts of the two statrs entry points.
//   t_value(c, dof): panics iff dof is NaN or <= 0 (StudentsT::new(..).unwrap()) or the quantile is outside [0,1];
//                    otherwise SOME finite value whose sign is the sign of quantile - 1/2.
//   z_value(c):      same without dof.
#![allow(unused_imports, dead_code)]
use super::*;

fn any_critical_value(q: f64) -> f64 {
    assert!(q >= 0.0 && q <= 1.0, "inverse_cdf: quantile outside [0,1]");
    let v: f64 = kani::any();
    kani::assume(v.is_finite());
    // quantile functions are finite on (0,1), odd about 1/2; |v| bounded so that products stay meaningful
    kani::assume(v.abs() <= 1.0e6);
    kani::assume(if q > 0.5 { v > 0.0 } else if q < 0.5 { v < 0.0 } else { v == 0.0 });
    v
}
pub(crate) fn stub_t_value(confidence: Confidence, degrees_of_freedom: f64) -> f64 {
    if degrees_of_freedom.is_nan() || degrees_of_freedom <= 0.0 {
        panic!("called `Result::unwrap()` on an `Err` value: FreedomInvalid");
    }
    any_critical_value(confidence.quantile())
}
pub(crate) fn stub_z_value(confidence: Confidence) -> f64 {
    any_critical_value(confidence.quantile())
}
pub(crate) fn any_confidence() -> Confidence {
    let l: f64 = kani::any();
    kani::assume(l > 0.0 && l < 1.0);
    match kani::any::<u8>() % 3 {
        0 => Confidence::TwoSided(l),
        1 => Confidence::UpperOneSided(l),
        _ => Confidence::LowerOneSided(l),
    }
}

// interval_bounds: symmetric about the mean, uses t below the population limit and z from it on
#[kani::proof]
#[kani::stub(crate::stats::t_value, stub_t_value)]
#[kani::stub(crate::stats::z_value, stub_z_value)]
fn c11_interval_bounds_total() {
    let c = any_confidence();
    let mean: f64 = kani::any();
    let sem: f64 = kani::any();
    let dof: f64 = kani::any();
    kani::assume(mean.is_finite() && sem.is_finite() && sem >= 0.0 && dof > 0.0);
    let (lo, hi) = interval_bounds(c, mean, sem, dof);
    // no NaN from finite inputs unless the products overflow to opposite infinities
    if lo.is_finite() && hi.is_finite() && c.quantile() >= 0.5 { assert!(lo <= hi); }
    kani::cover!(lo < hi);
}

// a DETERMINISTIC stand-in for z_value / t_value: finite, the sign of quantile - 1/2, a function of its arguments only.
// Used by the frame-condition harnesses (the critical value itself is outside the frame claim).
pub(crate) fn det_z_value(confidence: Confidence) -> f64 {
    (confidence.quantile() - 0.5) * 8.0
}
pub(crate) fn det_t_value(confidence: Confidence, degrees_of_freedom: f64) -> f64 {
    if degrees_of_freedom.is_nan() || degrees_of_freedom <= 0.0 {
        panic!("called `Result::unwrap()` on an `Err` value: FreedomInvalid");
    }
    (confidence.quantile() - 0.5) * 8.0 + 1.0 / degrees_of_freedom
}

// ---- C01 / C10: interval_bounds takes its critical value from t_value below the population limit and from z_value from it
// on, AT THE CONFIDENCE IT WAS GIVEN, and returns (mean - crit * sem, mean + crit * sem).  The two statrs entry points are
// replaced by deterministic functions of their arguments, so "which function, which confidence, which dof" is observable.
// (the fully symbolic version -- all f64 levels, means, standard errors, dof -- does not finish in CBMC: it has to equate two
// copies of a float multiplication; the Verus contract of interval_bounds is the unbounded statement, this grid is its IEEE twin)
// BOUNDED: levels {0.2, 0.9}, dof {7, 250000}, mean 10, sem 2
#[kani::proof]
#[kani::stub(crate::stats::t_value, det_t_value)]
#[kani::stub(crate::stats::z_value, det_z_value)]
fn c10_interval_bounds_uses_the_critical_value_grid() {
    let l = if kani::any() { 0.2 } else { 0.9 };
    let c = match kani::any::<u8>() % 3 { 0 => Confidence::TwoSided(l), 1 => Confidence::UpperOneSided(l), _ => Confidence::LowerOneSided(l) };
    let dof = if kani::any() { 7.0 } else { 250_000.0 };
    let (lo, hi) = interval_bounds(c, 10.0, 2.0, dof);
    let crit = if dof < 100_000.0 { det_t_value(c, dof) } else { det_z_value(c) };
    assert!(lo == 10.0 - crit * 2.0 && hi == 10.0 + crit * 2.0, "bounds are not mean -/+ crit * sem for the given confidence");
    kani::cover!(dof > 100_000.0 && !c.is_two_sided());
}
