// Kani harnesses for src/mean.rs (child module of `mean`: may build the private state).
// C11 totality, C05 rejection of non-positive values, C01/C09 trait delegations and merges.
#![allow(unused_imports, dead_code)]
use super::*;
use crate::error::CIError;
use crate::stats::verif_kani::{any_confidence, stub_t_value, stub_z_value, det_t_value, det_z_value};
use crate::utils::verif_kani::*;

pub(crate) fn any_arith_f64() -> Arithmetic<f64> {
    Arithmetic { sum: any_kahan_f64(), sum_sq: any_kahan_f64(), count: kani::any() }
}
pub(crate) fn any_arith_f32() -> Arithmetic<f32> {
    Arithmetic { sum: any_kahan_f32(), sum_sq: any_kahan_f32(), count: kani::any() }
}
pub(crate) fn arith_bits_f64(a: &Arithmetic<f64>) -> ((u64, u64), (u64, u64), usize) {
    (kahan_bits_f64(&a.sum), kahan_bits_f64(&a.sum_sq), a.count)
}
pub(crate) fn arith_bits_f32(a: &Arithmetic<f32>) -> ((u32, u32), (u32, u32), usize) {
    (kahan_bits_f32(&a.sum), kahan_bits_f32(&a.sum_sq), a.count)
}
pub(crate) fn arith_from_parts_f64(sum: f64, sum_sq: f64, count: usize) -> Arithmetic<f64> {
    Arithmetic { sum: kahan_from_parts_f64(sum, 0.0), sum_sq: kahan_from_parts_f64(sum_sq, 0.0), count }
}

// what an Ok interval must look like (C11): no NaN bound, lower <= upper
pub(crate) fn ok_interval_f64(i: &Interval<f64>) -> bool {
    match i {
        Interval::TwoSided(l, h) => !l.is_nan() && !h.is_nan() && l <= h,
        Interval::UpperOneSided(l) => !l.is_nan(),
        Interval::LowerOneSided(h) => !h.is_nan(),
    }
}
pub(crate) fn ok_interval_f32(i: &Interval<f32>) -> bool {
    match i {
        Interval::TwoSided(l, h) => !l.is_nan() && !h.is_nan() && l <= h,
        Interval::UpperOneSided(l) => !l.is_nan(),
        Interval::LowerOneSided(h) => !h.is_nan(),
    }
}
pub(crate) fn kind_matches<T: PartialOrd>(c: &Confidence, i: &Interval<T>) -> bool {
    match c {
        Confidence::TwoSided(_) => i.is_two_sided(),
        Confidence::UpperOneSided(_) => i.is_upper(),
        Confidence::LowerOneSided(_) => i.is_lower(),
    }
}

// ---- C11: Arithmetic::ci_mean is total over ALL states (every field value is reachable or over-approximated)
#[kani::proof]
#[kani::stub(crate::stats::t_value, stub_t_value)]
#[kani::stub(crate::stats::z_value, stub_z_value)]
fn c11_arithmetic_ci_mean_total_f64() {
    let s = any_arith_f64();
    let c = any_confidence();
    let r = s.ci_mean(c);
    match r {
        Ok(i) => {
            assert!(s.count >= 2, "Ok with fewer than two observations");
            assert!(ok_interval_f64(&i), "Ok with a NaN bound or lower > upper");
            assert!(kind_matches(&c, &i), "kind of the interval differs from kind of the confidence");
            kani::cover!(true, "ok path");
        }
        Err(CIError::TooFewSamples(n)) => { assert!(s.count < 2 && n == s.count); kani::cover!(true, "too few"); }
        Err(_) => { assert!(s.count >= 2, "fewer than two observations must be TooFewSamples"); kani::cover!(true, "other error"); }
    }
}
// non-finite accumulated data => InvalidInputData (never Ok, never a panic)
#[kani::proof]
#[kani::stub(crate::stats::t_value, stub_t_value)]
#[kani::stub(crate::stats::z_value, stub_z_value)]
fn c11_arithmetic_ci_mean_nonfinite_f64() {
    let sum: f64 = kani::any();
    let sum_sq: f64 = kani::any();
    let count: usize = kani::any();
    kani::assume(count >= 2);
    kani::assume(!sum.is_finite() || !sum_sq.is_finite());
    // representation invariant: a sum of squares is never -inf (squares are >= 0 or NaN; overflow gives +inf, then NaN)
    kani::assume(sum_sq != f64::NEG_INFINITY);
    let s = arith_from_parts_f64(sum, sum_sq, count);
    let r = s.ci_mean(any_confidence());
    assert!(matches!(r, Err(CIError::InvalidInputData)), "NaN/inf data must give InvalidInputData");
    kani::cover!(sum.is_nan());
    kani::cover!(sum_sq == f64::INFINITY && sum.is_finite());
}
#[kani::proof]
#[kani::stub(crate::stats::t_value, stub_t_value)]
#[kani::stub(crate::stats::z_value, stub_z_value)]
fn c11_arithmetic_ci_mean_total_f32() {
    let s = any_arith_f32();
    let c = any_confidence();
    match s.ci_mean(c) {
        Ok(i) => {
            assert!(s.count >= 2, "Ok with fewer than two observations");
            assert!(ok_interval_f32(&i), "Ok with a NaN bound or lower > upper");
            assert!(kind_matches(&c, &i));
            kani::cover!(true, "ok path");
        }
        Err(CIError::TooFewSamples(n)) => { assert!(s.count < 2 && n == s.count); kani::cover!(true, "too few"); }
        Err(_) => { assert!(s.count >= 2); kani::cover!(true, "other error"); }
    }
}
// the other statistics never panic either (overflow checks on): any state
#[kani::proof]
fn c11_arithmetic_stats_no_panic() {
    let s = any_arith_f64();
    let _ = s.sample_count();
    let _ = s.sample_mean();
    if s.count >= 1 {
        let _ = s.sample_variance();
        let _ = s.sample_std_dev();
        let _ = s.sample_sem();
    }
    kani::cover!(s.count == 1);
}

// ---- C05 / C11: Harmonic and Geometric reject non-positive values, payload = value, state untouched
#[kani::proof]
fn c05_harmonic_append_rejects_nonpositive_f64() {
    let mut h = Harmonic { recip_space: any_arith_f64() };
    kani::assume(h.recip_space.count < usize::MAX);
    let before = arith_bits_f64(&h.recip_space);
    let x: f64 = kani::any();
    let r = h.append(x);
    if x <= 0.0 {
        assert!(matches!(r, Err(CIError::NonPositiveValue(v)) if v.to_bits() == x.to_bits()), "non-positive value not rejected with its payload");
        assert!(arith_bits_f64(&h.recip_space) == before, "state changed by a rejected value");
        kani::cover!(x == 0.0 && x.is_sign_negative(), "-0");
        kani::cover!(x == f64::NEG_INFINITY);
    } else if x > 0.0 {
        assert!(r.is_ok());
        assert!(h.recip_space.count == before.2 + 1);
        kani::cover!(true, "accepted");
    }
}
#[kani::proof]
fn c05_geometric_append_rejects_nonpositive_f64() {
    let mut g = Geometric { log_space: any_arith_f64() };
    kani::assume(g.log_space.count < usize::MAX);
    let before = arith_bits_f64(&g.log_space);
    let x: f64 = kani::any();
    let r = g.append(x);
    if x <= 0.0 {
        assert!(matches!(r, Err(CIError::NonPositiveValue(v)) if v.to_bits() == x.to_bits()), "non-positive value not rejected with its payload");
        assert!(arith_bits_f64(&g.log_space) == before, "state changed by a rejected value");
        kani::cover!(x == 0.0 && x.is_sign_negative(), "-0");
    } else if x > 0.0 {
        assert!(r.is_ok());
        assert!(g.log_space.count == before.2 + 1);
        kani::cover!(true, "accepted");
    }
}
#[kani::proof]
fn c05_harmonic_append_rejects_nonpositive_f32() {
    let mut h = Harmonic { recip_space: any_arith_f32() };
    kani::assume(h.recip_space.count < usize::MAX);
    let before = arith_bits_f32(&h.recip_space);
    let x: f32 = kani::any();
    let r = h.append(x);
    if x <= 0.0 {
        assert!(matches!(r, Err(CIError::NonPositiveValue(v)) if v.to_bits() == (x as f64).to_bits()));
        assert!(arith_bits_f32(&h.recip_space) == before);
        kani::cover!(true, "rejected");
    } else if x > 0.0 {
        assert!(r.is_ok());
        kani::cover!(true, "accepted");
    }
}

// ---- C11: Harmonic / Geometric ci_mean total over all states
#[kani::proof]
#[kani::stub(crate::stats::t_value, stub_t_value)]
#[kani::stub(crate::stats::z_value, stub_z_value)]
fn c11_harmonic_ci_mean_total_f64() {
    let h = Harmonic { recip_space: any_arith_f64() };
    let c = any_confidence();
    match h.ci_mean(c) {
        Ok(i) => {
            assert!(h.recip_space.count >= 2, "Ok with fewer than two observations");
            assert!(ok_interval_f64(&i), "Ok with a NaN bound or lower > upper");
            assert!(kind_matches(&c, &i));
            kani::cover!(true, "ok path");
        }
        Err(CIError::TooFewSamples(n)) => { assert!(h.recip_space.count < 2 && n == h.recip_space.count); kani::cover!(true, "too few"); }
        Err(_) => { assert!(h.recip_space.count >= 2); kani::cover!(true, "other error"); }
    }
}

// ---- C01: the trait methods are the inherent ones (macro-generated one-line delegations).
// append / sample_count: all states, bit for bit.  The float-valued queries are compared on concrete states
// (a delegation forwards `self` unchanged, so a distinguishing state exposes a wrong target; a symbolic comparison
// of two copies of the same sqrt/div chain does not terminate in CBMC): labelled concrete, not a proof over states.
fn stub_t_const(_c: Confidence, dof: f64) -> f64 { if dof.is_nan() || dof <= 0.0 { panic!("FreedomInvalid") } else { 2.5 } }
fn stub_z_const(_c: Confidence) -> f64 { 2.0 }
#[kani::proof]
fn c01_statistics_ops_delegates_append_count() {
    let s = any_arith_f32();
    assert!(<Arithmetic<f32> as StatisticsOps<f32>>::sample_count(&s) == s.sample_count());
    // append: concrete state and value (see note above)
    let t = arith_from_parts_f64(7.0, 21.0, 3);
    let (mut a, mut b) = (t, t);
    let ra = <Arithmetic<f64> as StatisticsOps<f64>>::append(&mut a, 8.0);
    let rb = b.append(8.0);
    assert!(ra.is_ok() && rb.is_ok() && arith_bits_f64(&a) == arith_bits_f64(&b));
    assert!(a.count == 4 && a.sum.value() == 15.0 && a.sum_sq.value() == 85.0);
    kani::cover!(true);
}
#[kani::proof]
#[kani::stub(crate::stats::t_value, stub_t_const)]
#[kani::stub(crate::stats::z_value, stub_z_const)]
fn c01_statistics_ops_delegates_queries_concrete() {
    let c = any_confidence();
    let s = arith_from_parts_f64(7.0, 21.0, 3); // data 1, 2, 4
    assert!(<Arithmetic<f64> as StatisticsOps<f64>>::sample_mean(&s).to_bits() == s.sample_mean().to_bits());
    assert!(<Arithmetic<f64> as StatisticsOps<f64>>::sample_sem(&s).to_bits() == s.sample_sem().to_bits());
    assert!(s.sample_mean() != s.sample_sem() && s.sample_mean() != s.sample_std_dev());
    let (a, b) = (<Arithmetic<f64> as StatisticsOps<f64>>::ci_mean(&s, c), s.ci_mean(c));
    assert!(matches!((a, b), (Ok(x), Ok(y)) if x == y));
    kani::cover!(true);
}
// ---- C05: the same for the wrappers: through the StatisticsOps trait a Harmonic / Geometric state reports ITS OWN mean,
// standard error, count and interval (the documented back-transforms), not those of the arithmetic state it wraps.
// Concrete distinguishing states (see the note above); sees the expanded macro whatever shape the macro has.
#[kani::proof]
fn c05_statistics_ops_delegates_harmonic_concrete() {
    let h = Harmonic { recip_space: arith_from_parts_f64(1.75, 1.3125, 3) }; // data 1, 2, 4 (reciprocals 1, 1/2, 1/4)
    assert!(<Harmonic<f64> as StatisticsOps<f64>>::sample_count(&h) == 3 && h.sample_count() == 3);
    let (own_mean, own_sem) = (h.sample_mean(), h.sample_sem());
    // (agreement to 1e-9 relative, not bit for bit: a trait method that recomputes the same figure in another order is fine)
    let close = |a: f64, b: f64| (a - b).abs() <= 1e-9 * b.abs();
    assert!(close(<Harmonic<f64> as StatisticsOps<f64>>::sample_mean(&h), own_mean), "StatisticsOps::sample_mean of a Harmonic state is not its harmonic mean");
    assert!(close(<Harmonic<f64> as StatisticsOps<f64>>::sample_sem(&h), own_sem), "StatisticsOps::sample_sem of a Harmonic state is not H^2 se(1/x)");
    // distinguishing: the wrapper's figures are not the inner state's
    assert!(!close(own_mean, h.recip_space.sample_mean()) && !close(own_sem, h.recip_space.sample_sem()));
    let mut g = h;
    assert!(<Harmonic<f64> as StatisticsOps<f64>>::append(&mut g, 0.0).is_err() && g == h, "the trait's append must validate like the inherent one");
    kani::cover!(true);
}
#[kani::proof]
fn c05_statistics_ops_delegates_geometric_concrete() {
    let g = Geometric { log_space: arith_from_parts_f64(3.0, 5.0, 3) }; // log-space sum 3, sum of squares 5
    assert!(<Geometric<f64> as StatisticsOps<f64>>::sample_count(&g) == 3 && g.sample_count() == 3);
    // (CBMC's model of `exp` is nondeterministic within its error bound, so two evaluations of G or of G * se(ln x) cannot be
    // compared for equality here; the exact statement is decided by the Verus obligations Geometric::ops_*).  What can be said
    // on this state (mean of the logarithms = 1, so G = e): the trait reports a mean near e, not 1, and a standard error near
    // e * se(ln x), not se(ln x)
    let inner_sem = g.log_space.sample_sem();
    let (tm, ts) = (<Geometric<f64> as StatisticsOps<f64>>::sample_mean(&g), <Geometric<f64> as StatisticsOps<f64>>::sample_sem(&g));
    assert!(inner_sem > 0.0 && tm > 2.5 && tm < 3.0, "StatisticsOps::sample_mean of a Geometric state is not exp(mean of logs)");
    assert!(ts > 2.5 * inner_sem && ts < 3.0 * inner_sem, "StatisticsOps::sample_sem of a Geometric state is not G * se(ln x)");
    let mut k = g;
    assert!(<Geometric<f64> as StatisticsOps<f64>>::append(&mut k, -1.0).is_err() && k == g, "the trait's append must validate like the inherent one");
    kani::cover!(true);
}
// the one-shot entry points (inherent `ci`, trait StatisticsOps::ci, trait MeanCI::ci) agree with extend + ci_mean
#[kani::proof]
#[kani::unwind(5)]
#[kani::stub(crate::stats::t_value, stub_t_const)]
#[kani::stub(crate::stats::z_value, stub_z_const)]
fn c01_one_shot_ci_is_incremental_ci_concrete() {
    let c = any_confidence();
    let data = [1.0f64, 2.0, 4.0];
    let mut s = Arithmetic::<f64>::new();
    for x in data.iter() { assert!(s.append(*x).is_ok()); }
    let want = s.ci_mean(c);
    let r1 = Arithmetic::<f64>::ci(c, &data);
    let r2 = <Arithmetic<f64> as StatisticsOps<f64>>::ci(c, &data);
    let r3 = <Arithmetic<f64> as MeanCI<f64>>::ci(c, &data);
    assert!(matches!((&want, &r1), (Ok(x), Ok(y)) if x == y));
    assert!(matches!((&want, &r2), (Ok(x), Ok(y)) if x == y));
    assert!(matches!((&want, &r3), (Ok(x), Ok(y)) if x == y));
    let mut e = Arithmetic::<f64>::new();
    assert!(<Arithmetic<f64> as StatisticsOps<f64>>::extend(&mut e, &data).is_ok());
    assert!(arith_bits_f64(&e) == arith_bits_f64(&s));
    let f = <Arithmetic<f64> as StatisticsOps<f64>>::from_iter(&data);
    assert!(matches!(f, Ok(st) if arith_bits_f64(&st) == arith_bits_f64(&s)));
    kani::cover!(true);
}

// ---- C09 (concrete, exactly representable data 1, 2, 4, 8 -- every partial sum and square is exact in f64, so any grouping
// must give the very same values): extend on a NON-EMPTY state, merges of partial states with + and +=, the empty state on
// either side, and the same through the Harmonic wrapper.  Twin, on the compiled crate, of the Verus view-homomorphism
// obligations Arithmetic::{extend, add, add_assign} (which hold for every state and every length).
pub(crate) fn arith_values_f64(a: &Arithmetic<f64>) -> (u64, u64, usize) { (a.sum.value().to_bits(), a.sum_sq.value().to_bits(), a.count) }
pub(crate) fn arith_values_f32(a: &Arithmetic<f32>) -> (u32, u32, usize) { (a.sum.value().to_bits(), a.sum_sq.value().to_bits(), a.count) }
#[kani::proof]
#[kani::unwind(6)]
fn c09_arithmetic_chunked_and_merged_concrete() {
    let data = [1.0f64, 2.0, 4.0, 8.0];
    let mut s = Arithmetic::<f64>::new();
    let mut i = 0;
    while i < 4 { assert!(s.append(data[i]).is_ok()); i += 1; }
    let want = arith_values_f64(&s);
    assert!(want == (15.0f64.to_bits(), 85.0f64.to_bits(), 4));
    // extend continues a non-empty state
    let mut e = Arithmetic::<f64>::new();
    assert!(e.append(1.0).is_ok());
    assert!(<Arithmetic<f64> as StatisticsOps<f64>>::extend(&mut e, &vec![2.0f64, 4.0, 8.0]).is_ok());
    assert!(arith_values_f64(&e) == want, "extend on a non-empty state");
    // merges of partial states, any grouping, empty states included
    let lo = <Arithmetic<f64> as StatisticsOps<f64>>::from_iter(&vec![1.0f64, 2.0]);
    let hi = <Arithmetic<f64> as StatisticsOps<f64>>::from_iter(&vec![4.0f64, 8.0]);
    let one = <Arithmetic<f64> as StatisticsOps<f64>>::from_iter(&vec![8.0f64]);
    let three = <Arithmetic<f64> as StatisticsOps<f64>>::from_iter(&vec![1.0f64, 2.0, 4.0]);
    match (lo, hi, one, three) {
        (Ok(lo), Ok(hi), Ok(one), Ok(three)) => {
            assert!(arith_values_f64(&(lo + hi)) == want && arith_values_f64(&(hi + lo)) == want, "merge of two partial states");
            assert!(arith_values_f64(&(three + one)) == want && arith_values_f64(&(one + three)) == want, "merge with a one-observation state");
            let mut m = lo;
            m += hi;
            assert!(arith_values_f64(&m) == want, "+= of a partial state");
            let z = Arithmetic::<f64>::new();
            assert!(arith_values_f64(&(s + z)) == want && arith_values_f64(&(z + s)) == want, "the empty state is neutral");
            let mut n = s;
            n += z;
            assert!(arith_values_f64(&n) == want, "+= of the empty state");
            // the Harmonic wrapper merges its reciprocal-space state the same way
            let (h1, h2) = (Harmonic { recip_space: lo }, Harmonic { recip_space: hi });
            assert!(arith_values_f64(&(h1 + h2).recip_space) == want);
            let mut h3 = h1;
            h3 += h2;
            assert!(arith_values_f64(&h3.recip_space) == want);
            let (g1, g2) = (Geometric { log_space: lo }, Geometric { log_space: hi });
            assert!(arith_values_f64(&(g1 + g2).log_space) == want);
        }
        _ => assert!(false, "from_iter rejected finite data"),
    }
    kani::cover!(true);
}

// ---- C09: the count component of every merge is exact at full usize width (IEEE sums are C08 territory)
#[kani::proof]
fn c09_arithmetic_merge_counts() {
    let a = any_arith_f32();
    let b = any_arith_f32();
    kani::assume((a.count as u128) + (b.count as u128) <= usize::MAX as u128);
    let m = a + b;
    assert!(m.count == a.count + b.count);
    let mut n = a;
    n += b;
    assert!(n.count == a.count + b.count, "+= miscounts");
    let e = Arithmetic::<f32>::new();
    assert!(e.count == 0);
    assert!((a + e).count == a.count && (e + a).count == a.count, "merging the empty state changes the count");
    let (h1, h2) = (Harmonic { recip_space: a }, Harmonic { recip_space: b });
    assert!((h1 + h2).sample_count() == a.count + b.count);
    let (g1, g2) = (Geometric { log_space: a }, Geometric { log_space: b });
    assert!((g1 + g2).sample_count() == a.count + b.count);
    kani::cover!(a.count > 0 && b.count > 0);
    kani::cover!(b.count == 0);
}

// ---- C11 (BOUNDED, 3 observations): the one-shot entry points report invalid observations at every position
#[kani::proof]
#[kani::unwind(5)]
#[kani::stub(crate::stats::t_value, stub_t_value)]
#[kani::stub(crate::stats::z_value, stub_z_value)]
fn c11_one_shot_ci_invalid_observation_bounded() {
    let mut data: [f32; 3] = [1.0, 2.5, 4.0];
    let pos: usize = kani::any();
    kani::assume(pos < 3);
    let bad: f32 = kani::any();
    data[pos] = bad;
    let c = any_confidence();
    if !bad.is_finite() {
        assert!(matches!(Arithmetic::<f32>::ci(c, &data), Err(CIError::InvalidInputData)), "NaN/inf observation must give InvalidInputData");
        kani::cover!(bad.is_nan() && pos == 1);
    }
    if bad <= 0.0 {
        assert!(matches!(Harmonic::<f32>::ci(c, &data), Err(CIError::NonPositiveValue(v)) if v.to_bits() == (bad as f64).to_bits()));
        assert!(matches!(Geometric::<f32>::ci(c, &data), Err(CIError::NonPositiveValue(v)) if v.to_bits() == (bad as f64).to_bits()));
        kani::cover!(bad == 0.0 && pos == 2);
    }
    // too few observations
    let one = [1.0f32];
    let none: [f32; 0] = [];
    assert!(matches!(Arithmetic::<f32>::ci(c, &one), Err(CIError::TooFewSamples(1))));
    assert!(matches!(Arithmetic::<f32>::ci(c, &none), Err(CIError::TooFewSamples(0))));
    assert!(matches!(Geometric::<f32>::ci(c, &one), Err(CIError::TooFewSamples(1))));
    assert!(matches!(Harmonic::<f32>::ci(c, &none), Err(CIError::TooFewSamples(0))));
}
