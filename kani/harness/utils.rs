// Kani helpers + harnesses for src/utils.rs (child module of `utils`: may build KahanSum's private fields).
#![allow(unused_imports, dead_code)]
use super::*;

pub(crate) fn any_kahan_f64() -> KahanSum<f64> {
    KahanSum { sum: kani::any(), compensation: kani::any() }
}
pub(crate) fn any_kahan_f32() -> KahanSum<f32> {
    KahanSum { sum: kani::any(), compensation: kani::any() }
}
// a register as the public API produces it from finite data: finite fields
pub(crate) fn any_finite_kahan_f64() -> KahanSum<f64> {
    let k = any_kahan_f64();
    kani::assume(k.sum.is_finite() && k.compensation.is_finite());
    k
}
pub(crate) fn kahan_bits_f64(k: &KahanSum<f64>) -> (u64, u64) { (k.sum.to_bits(), k.compensation.to_bits()) }
pub(crate) fn kahan_bits_f32(k: &KahanSum<f32>) -> (u32, u32) { (k.sum.to_bits(), k.compensation.to_bits()) }
pub(crate) fn kahan_parts_f64(k: &KahanSum<f64>) -> (f64, f64) { (k.sum, k.compensation) }
pub(crate) fn kahan_from_parts_f64(sum: f64, compensation: f64) -> KahanSum<f64> { KahanSum { sum, compensation } }
pub(crate) fn kahan_from_parts_f32(sum: f32, compensation: f32) -> KahanSum<f32> { KahanSum { sum, compensation } }

// (no harness here: statements about the compensated sum's floating-point value belong to C08, which is not claimed)
