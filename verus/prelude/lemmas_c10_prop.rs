// C10 for proportions and quantile ranks
// the Wilson bounds move outwards as z grows, for z of either sign
pub proof fn lemma_wilson_monotone_any_z(n: real, k: real, z1: real, z2: real)
    requires n > 0real, 0real < k < n, z1 <= z2,
    ensures w_lo(n, k, z2) <= w_lo(n, k, z1), w_hi(n, k, z1) <= w_hi(n, k, z2),
{
    lemma_basic(n, k, z1);
    if z1 >= 0real {
        lemma_z_monotone(n, k, z1, z2);
    } else if z2 <= 0real {
        let (t1, t2) = (-z1, -z2);
        assert(-t1 == z1 && -t2 == z2);
        lemma_z_monotone(n, k, t2, t1);
        lemma_w_neg_z(n, k, t1);   // w_lo(-t1) == w_hi(t1), w_hi(-t1) == w_lo(t1)
        lemma_w_neg_z(n, k, t2);
        assert(w_lo(n, k, z1) == w_hi(n, k, t1) && w_hi(n, k, z1) == w_lo(n, k, t1));
        assert(w_lo(n, k, z2) == w_hi(n, k, t2) && w_hi(n, k, z2) == w_lo(n, k, t2));
    } else {
        let t1 = -z1;
        assert(-t1 == z1);
        lemma_z_monotone(n, k, 0real, z2);
        lemma_z_monotone(n, k, 0real, t1);
        lemma_w_neg_z(n, k, t1);
        lemma_w_neg_z(n, k, 0real);
        assert(w_lo(n, k, z1) == w_hi(n, k, t1) && w_hi(n, k, z1) == w_lo(n, k, t1));
        assert(w_lo(n, k, 0real) == w_hi(n, k, 0real));
    }
}
pub proof fn lemma_wilson_ci_coherent(a: Confidence, b: Confidence, n: usize, k: usize)
    requires same_kind(a, b), conf_valid(a), conf_valid(b), conf_level(a) <= conf_level(b), 2 <= k, k + 2 <= n,
    ensures ({
        let (nr, kr) = (n as real, k as real);
        // nesting
        &&& w_lo(nr, kr, z_of(b)) <= w_lo(nr, kr, z_of(a)) && w_hi(nr, kr, z_of(a)) <= w_hi(nr, kr, z_of(b))
        // k/n inside for a two-sided interval or a one-sided one at level >= 1/2; natural far ends 0 and 1 contain it always
        &&& conf_quantile(a) >= 0.5real ==> w_lo(nr, kr, z_of(a)) <= kr / nr <= w_hi(nr, kr, z_of(a))
        &&& 0real <= kr / nr <= 1real
    }),
{
    let (nr, kr) = (n as real, k as real);
    lemma_crit_facts(a, b, 1real);
    assert(z_of(a) == z_of_c10(a) && z_of(b) == z_of_c10(b));
    lemma_wilson_monotone_any_z(nr, kr, z_of(a), z_of(b));
    if conf_quantile(a) >= 0.5real { lemma_phat_between(nr, kr, z_of(a)); }
    let kk = kr / nr;
    assert(kk * nr == kr) by(nonlinear_arith) requires kk == kr / nr, nr > 0real;
    assert(0real <= kk <= 1real) by(nonlinear_arith) requires kk * nr == kr, nr > 0real, 0real <= kr <= nr;
}
pub proof fn lemma_wilson_one_sided_matches_two_sided(l: R)
    requires 0.5real < l.v() < 1real,
    ensures z_of(Confidence::UpperOneSided(l)) == z_of(Confidence::TwoSided(r_of(2real * l.v() - 1real))),
            z_of(Confidence::LowerOneSided(l)) == z_of(Confidence::TwoSided(r_of(2real * l.v() - 1real))),
{ lemma_one_sided_is_two_sided_at_2l_minus_1(l); }
