// ===== C13, clause by clause, over the spec functions the extracted operators are proved equal to =====
pub open spec fn increasing(g: spec_fn(real) -> real) -> bool { forall|x: real, y: real| x <= y ==> #[trigger] g(x) <= #[trigger] g(y) }
pub open spec fn decreasing(g: spec_fn(real) -> real) -> bool { forall|x: real, y: real| x <= y ==> #[trigger] g(x) >= #[trigger] g(y) }
// "sound, tight, well-formed, bounded on the sides the source is" for the image under an increasing map:
//   every member maps to a member; every finite bound of the image is g at a bound of i, which is a member of i (attained)
pub open spec fn image_facts_inc(i: Interval<R>, g: spec_fn(real) -> real, res: Interval<R>, x: real) -> bool {
    &&& wf_r(res)
    &&& (mem(i, x) ==> mem(res, g(x)))
    &&& (lo_of(res) is Some) == (lo_of(i) is Some)
    &&& (hi_of(res) is Some) == (hi_of(i) is Some)
    &&& (lo_of(res) is Some ==> mem(i, lo_of(i)->Some_0) && lo_of(res)->Some_0 == g(lo_of(i)->Some_0))
    &&& (hi_of(res) is Some ==> mem(i, hi_of(i)->Some_0) && hi_of(res)->Some_0 == g(hi_of(i)->Some_0))
}
// ... and under a decreasing map: the sides are exchanged
pub open spec fn image_facts_dec(i: Interval<R>, g: spec_fn(real) -> real, res: Interval<R>, x: real) -> bool {
    &&& wf_r(res)
    &&& (mem(i, x) ==> mem(res, g(x)))
    &&& (lo_of(res) is Some) == (hi_of(i) is Some)
    &&& (hi_of(res) is Some) == (lo_of(i) is Some)
    &&& (lo_of(res) is Some ==> mem(i, hi_of(i)->Some_0) && lo_of(res)->Some_0 == g(hi_of(i)->Some_0))
    &&& (hi_of(res) is Some ==> mem(i, lo_of(i)->Some_0) && hi_of(res)->Some_0 == g(lo_of(i)->Some_0))
}
pub proof fn lemma_img_inc(i: Interval<R>, g: spec_fn(real) -> real, x: real)
    requires wf_r(i), increasing(g),
    ensures image_facts_inc(i, g, img_inc(i, g), x),
{
    broadcast use ax_r_of;
    match i {
        Interval::TwoSided(l, h) => { assert(g(l.v()) <= g(h.v())); if mem(i, x) { assert(g(l.v()) <= g(x)); assert(g(x) <= g(h.v())); } },
        Interval::UpperOneSided(l) => { if mem(i, x) { assert(g(l.v()) <= g(x)); } },
        Interval::LowerOneSided(h) => { if mem(i, x) { assert(g(x) <= g(h.v())); } },
    }
}
pub proof fn lemma_img_dec(i: Interval<R>, g: spec_fn(real) -> real, x: real)
    requires wf_r(i), decreasing(g),
    ensures image_facts_dec(i, g, img_dec(i, g), x),
{
    broadcast use ax_r_of;
    match i {
        Interval::TwoSided(l, h) => { assert(g(l.v()) >= g(h.v())); if mem(i, x) { assert(g(l.v()) >= g(x)); assert(g(x) >= g(h.v())); } },
        Interval::UpperOneSided(l) => { if mem(i, x) { assert(g(l.v()) >= g(x)); } },
        Interval::LowerOneSided(h) => { if mem(i, x) { assert(g(x) >= g(h.v())); } },
    }
}
pub proof fn lemma_mul_monotone(k: real)
    ensures k > 0real ==> increasing(|x: real| rmul(x, k)), k < 0real ==> decreasing(|x: real| rmul(x, k)),
            k > 0real ==> increasing(|x: real| rdiv(x, k)), k < 0real ==> decreasing(|x: real| rdiv(x, k)),
{
    let gm = |x: real| rmul(x, k);
    let gd = |x: real| rdiv(x, k);
    if k > 0real {
        assert forall|x: real, y: real| x <= y implies #[trigger] gm(x) <= #[trigger] gm(y) by { assert(x * k <= y * k) by(nonlinear_arith) requires x <= y, k > 0real; }
        assert forall|x: real, y: real| x <= y implies #[trigger] gd(x) <= #[trigger] gd(y) by { assert(x / k <= y / k) by(nonlinear_arith) requires x <= y, k > 0real; }
    }
    if k < 0real {
        assert forall|x: real, y: real| x <= y implies #[trigger] gm(x) >= #[trigger] gm(y) by { assert(x * k >= y * k) by(nonlinear_arith) requires x <= y, k < 0real; }
        assert forall|x: real, y: real| x <= y implies #[trigger] gd(x) >= #[trigger] gd(y) by { assert(x / k >= y / k) by(nonlinear_arith) requires x <= y, k < 0real; }
    }
}
// ---- scalar operations: A + k, A - k, -A, A * k, A / k
pub proof fn lemma_c13_add_sub_neg(i: Interval<R>, k: real, x: real)
    requires wf_r(i),
    ensures image_facts_inc(i, |y: real| y + k, add_k(i, k), x),
            image_facts_inc(i, |y: real| y - k, sub_k(i, k), x),
            image_facts_dec(i, |y: real| -y, neg_i(i), x),
{
    lemma_img_inc(i, |y: real| y + k, x);
    lemma_img_inc(i, |y: real| y - k, x);
    lemma_img_dec(i, |y: real| -y, x);
}
pub proof fn lemma_c13_mul_div(i: Interval<R>, k: real, x: real)
    requires wf_r(i),
    ensures k > 0real ==> image_facts_inc(i, |y: real| rmul(y, k), mul_k(i, k), x) && image_facts_inc(i, |y: real| rdiv(y, k), div_k(i, k), x),
            k < 0real ==> image_facts_dec(i, |y: real| rmul(y, k), mul_k(i, k), x) && image_facts_dec(i, |y: real| rdiv(y, k), div_k(i, k), x),
            // multiplication by zero: the image of a non-empty set is the single point 0, whatever the kind
            k == 0real ==> mul_k(i, k) == point(0real) && wf_r(mul_k(i, k)) && (mem(i, x) ==> mem(mul_k(i, k), rmul(x, k))) && lo_of(mul_k(i, k)) == Some(0real) && hi_of(mul_k(i, k)) == Some(0real),
{
    broadcast use ax_r_of;
    lemma_mul_monotone(k);
    if k > 0real { lemma_img_inc(i, |y: real| rmul(y, k), x); lemma_img_inc(i, |y: real| rdiv(y, k), x); }
    if k < 0real { lemma_img_dec(i, |y: real| rmul(y, k), x); lemma_img_dec(i, |y: real| rdiv(y, k), x); }
}
// "unbounded on exactly the side the true image is unbounded": where the result has no bound, the image really has members beyond
// any m (the converse -- a bound of the result bounds the image -- is soundness).  Witnesses are explicit.
pub proof fn lemma_c13_scalar_unbounded_side(i: Interval<R>, k: real, m: real)
    requires wf_r(i),
    ensures hi_of(add_k(i, k)) is None ==> exists|y: real| #[trigger] mem(i, y) && y + k > m,
            lo_of(add_k(i, k)) is None ==> exists|y: real| #[trigger] mem(i, y) && y + k < m,
            hi_of(sub_k(i, k)) is None ==> exists|y: real| #[trigger] mem(i, y) && y - k > m,
            lo_of(sub_k(i, k)) is None ==> exists|y: real| #[trigger] mem(i, y) && y - k < m,
            hi_of(neg_i(i)) is None ==> exists|y: real| #[trigger] mem(i, y) && -y > m,
            lo_of(neg_i(i)) is None ==> exists|y: real| #[trigger] mem(i, y) && -y < m,
            k != 0real && hi_of(mul_k(i, k)) is None ==> exists|y: real| #[trigger] mem(i, y) && rmul(y, k) > m,
            k != 0real && lo_of(mul_k(i, k)) is None ==> exists|y: real| #[trigger] mem(i, y) && rmul(y, k) < m,
            k != 0real && hi_of(div_k(i, k)) is None ==> exists|y: real| #[trigger] mem(i, y) && rdiv(y, k) > m,
            k != 0real && lo_of(div_k(i, k)) is None ==> exists|y: real| #[trigger] mem(i, y) && rdiv(y, k) < m,
{
    broadcast use ax_r_of;
    match i {
        Interval::TwoSided(l, h) => {},
        Interval::UpperOneSided(l) => {
            // members: everything >= l
            let a = if l.v() >= m - k { l.v() } else { m - k } + 1real;  assert(mem(i, a) && a + k > m);
            let b = if l.v() >= m + k { l.v() } else { m + k } + 1real;  assert(mem(i, b) && b - k > m);
            let c = if l.v() >= -m { l.v() } else { -m } + 1real;        assert(mem(i, c) && -c < m);
            if k > 0real {
                let q = m / k; let d = if l.v() >= q { l.v() } else { q } + 1real;
                assert(mem(i, d));
                assert(d * k > m) by(nonlinear_arith) requires d > m / k, k > 0real;
                let q2 = m * k; let e = if l.v() >= q2 { l.v() } else { q2 } + 1real;
                assert(mem(i, e));
                assert(e / k > m) by(nonlinear_arith) requires e > m * k, k > 0real;
            }
            if k < 0real {
                let q = m / k; let d = if l.v() >= q { l.v() } else { q } + 1real;
                assert(mem(i, d));
                assert(d * k < m) by(nonlinear_arith) requires d > m / k, k < 0real;
                let q2 = m * k; let e = if l.v() >= q2 { l.v() } else { q2 } + 1real;
                assert(mem(i, e));
                assert(e / k < m) by(nonlinear_arith) requires e > m * k, k < 0real;
            }
        },
        Interval::LowerOneSided(h) => {
            let a = if h.v() <= m - k { h.v() } else { m - k } - 1real;  assert(mem(i, a) && a + k < m);
            let b = if h.v() <= m + k { h.v() } else { m + k } - 1real;  assert(mem(i, b) && b - k < m);
            let c = if h.v() <= -m { h.v() } else { -m } - 1real;        assert(mem(i, c) && -c > m);
            if k > 0real {
                let q = m / k; let d = if h.v() <= q { h.v() } else { q } - 1real;
                assert(mem(i, d));
                assert(d * k < m) by(nonlinear_arith) requires d < m / k, k > 0real;
                let q2 = m * k; let e = if h.v() <= q2 { h.v() } else { q2 } - 1real;
                assert(mem(i, e));
                assert(e / k < m) by(nonlinear_arith) requires e < m * k, k > 0real;
            }
            if k < 0real {
                let q = m / k; let d = if h.v() <= q { h.v() } else { q } - 1real;
                assert(mem(i, d));
                assert(d * k > m) by(nonlinear_arith) requires d < m / k, k < 0real;
                let q2 = m * k; let e = if h.v() <= q2 { h.v() } else { q2 } - 1real;
                assert(mem(i, e));
                assert(e / k > m) by(nonlinear_arith) requires e < m * k, k < 0real;
            }
        },
    }
}
// ---- interval + interval, interval - interval
pub proof fn lemma_c13_add_sub_ii(a: Interval<R>, b: Interval<R>, x: real, y: real)
    requires wf_r(a), wf_r(b),
    ensures add_ii_defined(a, b) ==> {
                &&& wf_r(add_ii(a, b))
                &&& (mem(a, x) && mem(b, y) ==> mem(add_ii(a, b), x + y))
                &&& (lo_of(add_ii(a, b)) is Some ==> lo_of(a) is Some && lo_of(b) is Some && mem(a, lo_of(a)->Some_0) && mem(b, lo_of(b)->Some_0) && lo_of(add_ii(a, b))->Some_0 == lo_of(a)->Some_0 + lo_of(b)->Some_0)
                &&& (hi_of(add_ii(a, b)) is Some ==> hi_of(a) is Some && hi_of(b) is Some && mem(a, hi_of(a)->Some_0) && mem(b, hi_of(b)->Some_0) && hi_of(add_ii(a, b))->Some_0 == hi_of(a)->Some_0 + hi_of(b)->Some_0)
                // bounded below exactly when both operands are, above likewise
                &&& (lo_of(add_ii(a, b)) is Some) == (lo_of(a) is Some && lo_of(b) is Some)
                &&& (hi_of(add_ii(a, b)) is Some) == (hi_of(a) is Some && hi_of(b) is Some)
            },
            sub_ii_defined(a, b) ==> {
                &&& wf_r(sub_ii(a, b))
                &&& (mem(a, x) && mem(b, y) ==> mem(sub_ii(a, b), x - y))
                &&& (lo_of(sub_ii(a, b)) is Some ==> lo_of(a) is Some && hi_of(b) is Some && mem(a, lo_of(a)->Some_0) && mem(b, hi_of(b)->Some_0) && lo_of(sub_ii(a, b))->Some_0 == lo_of(a)->Some_0 - hi_of(b)->Some_0)
                &&& (hi_of(sub_ii(a, b)) is Some ==> hi_of(a) is Some && lo_of(b) is Some && mem(a, hi_of(a)->Some_0) && mem(b, lo_of(b)->Some_0) && hi_of(sub_ii(a, b))->Some_0 == hi_of(a)->Some_0 - lo_of(b)->Some_0)
                &&& (lo_of(sub_ii(a, b)) is Some) == (lo_of(a) is Some && hi_of(b) is Some)
                &&& (hi_of(sub_ii(a, b)) is Some) == (hi_of(a) is Some && lo_of(b) is Some)
            },
{
    broadcast use ax_r_of;
}
// where a sum / difference has no bound, the true set of sums / differences is unbounded on that side
pub proof fn lemma_c13_ii_unbounded_side(a: Interval<R>, b: Interval<R>, m: real)
    requires wf_r(a), wf_r(b),
    ensures add_ii_defined(a, b) && hi_of(add_ii(a, b)) is None ==> exists|x: real, y: real| #[trigger] mem(a, x) && #[trigger] mem(b, y) && x + y > m,
            add_ii_defined(a, b) && lo_of(add_ii(a, b)) is None ==> exists|x: real, y: real| #[trigger] mem(a, x) && #[trigger] mem(b, y) && x + y < m,
            sub_ii_defined(a, b) && hi_of(sub_ii(a, b)) is None ==> exists|x: real, y: real| #[trigger] mem(a, x) && #[trigger] mem(b, y) && x - y > m,
            sub_ii_defined(a, b) && lo_of(sub_ii(a, b)) is None ==> exists|x: real, y: real| #[trigger] mem(a, x) && #[trigger] mem(b, y) && x - y < m,
{
    broadcast use ax_r_of;
    // a member of each operand to start from
    let xa = match a { Interval::TwoSided(l, _) => l.v(), Interval::UpperOneSided(l) => l.v(), Interval::LowerOneSided(h) => h.v() };
    let yb = match b { Interval::TwoSided(l, _) => l.v(), Interval::UpperOneSided(l) => l.v(), Interval::LowerOneSided(h) => h.v() };
    assert(mem(a, xa) && mem(b, yb));
    let big = (if m >= 0real { m } else { -m }) + (if xa >= 0real { xa } else { -xa }) + (if yb >= 0real { yb } else { -yb }) + 1real;
    if add_ii_defined(a, b) && hi_of(add_ii(a, b)) is None {
        if hi_of(a) is None { assert(mem(a, xa + big) && mem(b, yb) && (xa + big) + yb > m); } else { assert(mem(a, xa) && mem(b, yb + big) && xa + (yb + big) > m); }
    }
    if add_ii_defined(a, b) && lo_of(add_ii(a, b)) is None {
        if lo_of(a) is None { assert(mem(a, xa - big) && mem(b, yb) && (xa - big) + yb < m); } else { assert(mem(a, xa) && mem(b, yb - big) && xa + (yb - big) < m); }
    }
    if sub_ii_defined(a, b) && hi_of(sub_ii(a, b)) is None {
        if hi_of(a) is None { assert(mem(a, xa + big) && mem(b, yb) && (xa + big) - yb > m); } else { assert(mem(a, xa) && mem(b, yb - big) && xa - (yb - big) > m); }
    }
    if sub_ii_defined(a, b) && lo_of(sub_ii(a, b)) is None {
        if lo_of(a) is None { assert(mem(a, xa - big) && mem(b, yb) && (xa - big) - yb < m); } else { assert(mem(a, xa) && mem(b, yb + big) && xa - (yb + big) < m); }
    }
}
// ---- relative_to: encloses (x - r)/r for all members, finite bounds attained at the extreme members
pub proof fn lemma_rel_monotone(x: real, x2: real, r: real, r2: real)
    requires 0real <= x <= x2, 0real < r <= r2,
    ensures rel(x, r2) <= rel(x, r), rel(x, r) <= rel(x2, r),
{
    assert((x - r2) / r2 <= (x - r) / r) by(nonlinear_arith) requires 0real <= x, 0real < r <= r2;
    assert((x - r) / r <= (x2 - r) / r) by(nonlinear_arith) requires x <= x2, 0real < r;
}
pub proof fn lemma_c13_relative_to(s: Interval<R>, r: Interval<R>, x: real, y: real)
    requires rel_domain(s, r),
    ensures wf_r(rel_ii(s, r)),
            mem(s, x) && mem(r, y) ==> mem(rel_ii(s, r), rel(x, y)),
            lo_of(rel_ii(s, r)) is Some ==> hi_of(r) is Some && mem(s, lo_of(s)->Some_0) && mem(r, hi_of(r)->Some_0) && lo_of(rel_ii(s, r))->Some_0 == rel(lo_of(s)->Some_0, hi_of(r)->Some_0),
            hi_of(rel_ii(s, r)) is Some ==> hi_of(s) is Some && mem(s, hi_of(s)->Some_0) && mem(r, lo_of(r)->Some_0) && hi_of(rel_ii(s, r))->Some_0 == rel(hi_of(s)->Some_0, lo_of(r)->Some_0),
{
    broadcast use ax_r_of;
    let sl = lo_of(s)->Some_0; let rl = lo_of(r)->Some_0;
    if hi_of(s) is Some && hi_of(r) is Some {
        let sh = hi_of(s)->Some_0; let rh = hi_of(r)->Some_0;
        lemma_rel_monotone(sl, sh, rl, rh); lemma_rel_monotone(sl, sl, rl, rh); lemma_rel_monotone(sh, sh, rl, rh);
    }
    if mem(s, x) && mem(r, y) {
        if hi_of(r) is Some { let rh = hi_of(r)->Some_0; lemma_rel_monotone(sl, x, y, rh); lemma_rel_monotone(sl, x, y, y); }
        if hi_of(s) is Some { let sh = hi_of(s)->Some_0; lemma_rel_monotone(x, sh, rl, y); lemma_rel_monotone(x, sh, rl, rl); }
    }
}
