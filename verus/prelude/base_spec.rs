// ===== spec functions over the base items =====
pub open spec fn le<T: PartialOrd>(a: T, b: T) -> bool {
    a.partial_cmp_spec(&b) == Some(Ordering::Less) || a.partial_cmp_spec(&b) == Some(Ordering::Equal)
}
pub open spec fn conf_level(c: Confidence) -> real {
    match c { Confidence::TwoSided(l) => l.v(), Confidence::UpperOneSided(l) => l.v(), Confidence::LowerOneSided(l) => l.v() }
}
pub open spec fn conf_valid(c: Confidence) -> bool { 0real < conf_level(c) < 1real }
// property C01/C02: (1+L)/2 for two-sided, L for one-sided
pub open spec fn conf_quantile(c: Confidence) -> real {
    match c {
        Confidence::TwoSided(l) => (1real + l.v()) / 2real,
        Confidence::UpperOneSided(l) => l.v(),
        Confidence::LowerOneSided(l) => l.v(),
    }
}
pub open spec fn conf_flipped(c: Confidence) -> Confidence {
    match c {
        Confidence::TwoSided(l) => Confidence::TwoSided(l),
        Confidence::UpperOneSided(l) => Confidence::LowerOneSided(l),
        Confidence::LowerOneSided(l) => Confidence::UpperOneSided(l),
    }
}
// the critical value: Student-t quantile below the population limit, normal quantile from it on (property C01)
pub open spec fn crit(c: Confidence, dof: real) -> real {
    if dof < 100000real { t_quantile(conf_quantile(c), dof) } else { normal_quantile(conf_quantile(c)) }
}

// ---- sample statistics as functions of the accumulated view (S = sum x, Q = sum x^2, n = count)
pub open spec fn mean_of(s: real, n: nat) -> real { rdiv(s, n as real) }
// (n-1)-denominator variance in the one-pass form the state allows; lemma_var_is_centered_ss ties it to sum (x - mean)^2
pub open spec fn var_raw(s: real, q: real, n: nat) -> real { rdiv(q - rmul(mean_of(s, n), s), (n - 1) as real) }
// the code clamps at zero against rounding; over the reals the raw value is never negative (lemma_var_nonneg)
pub open spec fn var_of(s: real, q: real, n: nat) -> real { if var_raw(s, q, n) < 0real { 0real } else { var_raw(s, q, n) } }
pub open spec fn sd_of(s: real, q: real, n: nat) -> real { sqrt_spec(var_of(s, q, n)) }
// the interval of property C01: mean -/+ c * s / sqrt(n), c = critical value at n - 1 degrees of freedom
pub open spec fn se_of(s: real, q: real, n: nat) -> real { rdiv(sd_of(s, q, n), sqrt_spec(n as real)) }
pub open spec fn mean_ci_lo(c: Confidence, s: real, q: real, n: nat) -> real { mean_of(s, n) - rmul(crit(c, (n - 1) as real), se_of(s, q, n)) }
pub open spec fn mean_ci_hi(c: Confidence, s: real, q: real, n: nat) -> real { mean_of(s, n) + rmul(crit(c, (n - 1) as real), se_of(s, q, n)) }
// kind of the confidence selects the bounds (C01 / C10)
pub open spec fn ci_by_kind(c: Confidence, lo: real, hi: real, i: Interval<R>) -> bool {
    match c {
        Confidence::TwoSided(_) => i is TwoSided && i->TwoSided_0.v() == lo && i->TwoSided_1.v() == hi,
        Confidence::UpperOneSided(_) => i is UpperOneSided && i->UpperOneSided_0.v() == lo,
        Confidence::LowerOneSided(_) => i is LowerOneSided && i->LowerOneSided_0.v() == hi,
    }
}

// ---- sums over a data sequence (for the loops of extend / from_iter)
pub open spec fn sum_to(s: Seq<R>, k: int) -> real decreases k { if k <= 0 { 0real } else { sum_to(s, k - 1) + s[k - 1].v() } }
pub open spec fn sumsq_to(s: Seq<R>, k: int) -> real decreases k { if k <= 0 { 0real } else { sumsq_to(s, k - 1) + rmul(s[k - 1].v(), s[k - 1].v()) } }
pub open spec fn sum_f_to(s: Seq<R>, k: int, f: spec_fn(real) -> real) -> real decreases k { if k <= 0 { 0real } else { sum_f_to(s, k - 1, f) + f(s[k - 1].v()) } }
pub open spec fn sumsq_f_to(s: Seq<R>, k: int, f: spec_fn(real) -> real) -> real decreases k { if k <= 0 { 0real } else { sumsq_f_to(s, k - 1, f) + rmul(f(s[k - 1].v()), f(s[k - 1].v())) } }
pub open spec fn all_positive_to(s: Seq<R>, k: int) -> bool { forall|i: int| 0 <= i < k ==> (#[trigger] s[i]).v() > 0real }
pub open spec fn recip(x: real) -> real { rdiv(1real, x) }

// ---- C05: back-transformed intervals
// se(.) of the crate in the transformed space: s / sqrt(n - 1)
pub open spec fn sem_of(s: real, q: real, n: nat) -> real { rdiv(sd_of(s, q, n), sqrt_spec((n - 1) as real)) }
// H^2 * se(1/x) and G * se(ln x), written in the order the property states them
pub open spec fn harmonic_sem(s: real, q: real, n: nat) -> real {
    rdiv(rmul(rmul(recip(mean_of(s, n)), recip(mean_of(s, n))), sd_of(s, q, n)), sqrt_spec((n - 1) as real))
}
pub open spec fn geometric_sem(s: real, q: real, n: nat) -> real {
    rdiv(rmul(exp_spec(mean_of(s, n)), sd_of(s, q, n)), sqrt_spec((n - 1) as real))
}
// geometric: exp of the arithmetic-mean interval of the logarithms, same kind
pub open spec fn geometric_ci(c: Confidence, s: real, q: real, n: nat, i: Interval<R>) -> bool {
    ci_by_kind(c, exp_spec(mean_ci_lo(c, s, q, n)), exp_spec(mean_ci_hi(c, s, q, n)), i)
}
// harmonic: reciprocal of the arithmetic-mean interval of the reciprocals with its ends exchanged; an upper one-sided
// request uses the LOWER one-sided reciprocal-space bound (its upper end) and vice versa
pub open spec fn harmonic_ci(c: Confidence, s: real, q: real, n: nat, i: Interval<R>) -> bool {
    let f = conf_flipped(c);
    ci_by_kind(c, recip(mean_ci_hi(f, s, q, n)), recip(mean_ci_lo(f, s, q, n)), i)
}
