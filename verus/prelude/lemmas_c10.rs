// ===== C10: kind and level act coherently (pure lemmas over the spec functions the producers' contracts use) =====
// every producer sees the confidence only through its kind (bound selection, in the contracts) and its quantile:
pub proof fn lemma_one_sided_is_two_sided_at_2l_minus_1(l: R)
    requires 0.5real < l.v() < 1real,
    ensures conf_quantile(Confidence::UpperOneSided(l)) == conf_quantile(Confidence::TwoSided(r_of(2real * l.v() - 1real))),
            conf_quantile(Confidence::LowerOneSided(l)) == conf_quantile(Confidence::TwoSided(r_of(2real * l.v() - 1real))),
            conf_valid(Confidence::TwoSided(r_of(2real * l.v() - 1real))),
{ ax_r_of(2real * l.v() - 1real); }
pub open spec fn same_kind(a: Confidence, b: Confidence) -> bool {
    (a is TwoSided && b is TwoSided) || (a is UpperOneSided && b is UpperOneSided) || (a is LowerOneSided && b is LowerOneSided)
}
pub proof fn lemma_quantile_monotone_in_level(a: Confidence, b: Confidence)
    requires same_kind(a, b), conf_valid(a), conf_valid(b), conf_level(a) <= conf_level(b),
    ensures 0real < conf_quantile(a) <= conf_quantile(b) < 1real, a is TwoSided ==> conf_quantile(a) > 0.5real,
{}
// critical values: equal quantiles give equal critical values; a higher level gives a larger one; level >= 1/2 gives a non-negative one
pub proof fn lemma_crit_facts(a: Confidence, b: Confidence, dof: real)
    requires same_kind(a, b), conf_valid(a), conf_valid(b), conf_level(a) <= conf_level(b), dof > 0real,
    ensures crit(a, dof) <= crit(b, dof), z_of_c10(a) <= z_of_c10(b),
            conf_quantile(a) >= 0.5real ==> crit(a, dof) >= 0real && z_of_c10(a) >= 0real,
{
    lemma_quantile_monotone_in_level(a, b);
    ax_tq_mono(conf_quantile(a), conf_quantile(b), dof);
    ax_nq_mono(conf_quantile(a), conf_quantile(b));
    ax_tq_sign(conf_quantile(a), dof);
    ax_nq_sign(conf_quantile(a));
}
pub open spec fn z_of_c10(c: Confidence) -> real { normal_quantile(conf_quantile(c)) }
// mean -/+ crit * se with se >= 0: widening in crit, contains the mean when crit >= 0
pub proof fn lemma_symmetric_interval_monotone(m: real, k1: real, k2: real, se: real)
    requires k1 <= k2, se >= 0real,
    ensures m - rmul(k2, se) <= m - rmul(k1, se), m + rmul(k1, se) <= m + rmul(k2, se),
            k1 >= 0real ==> m - rmul(k1, se) <= m <= m + rmul(k1, se),
{
    assert(k1 * se <= k2 * se) by(nonlinear_arith) requires k1 <= k2, se >= 0real;
    if k1 >= 0real { assert(k1 * se >= 0real) by(nonlinear_arith) requires k1 >= 0real, se >= 0real; }
}
