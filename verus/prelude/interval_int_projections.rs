// ===== macro-generated `From<Interval<$x>> for ($x, $x)` for the twelve integer types (impl_for_ints!): every invocation is expanded
// at check time (rule M1) and the generated impl verified: the bounds that exist are passed through, the missing side is MIN / MAX =====
//@impl src/interval.rs!impl_for_ints(i8) impl From<Interval<i8>> for (i8, i8)
//@fn from ret r
//@endimpl
impl FromSpecImpl<Interval<i8>> for (i8, i8) {
    open spec fn obeys_from_spec() -> bool { true }
    open spec fn from_spec(value: Interval<i8>) -> Self { match value { Interval::TwoSided(l, h) => (l, h), Interval::UpperOneSided(l) => (l, i8::MAX), Interval::LowerOneSided(h) => (i8::MIN, h) } }
}
//@impl src/interval.rs!impl_for_ints(i16) impl From<Interval<i16>> for (i16, i16)
//@fn from ret r
//@endimpl
impl FromSpecImpl<Interval<i16>> for (i16, i16) {
    open spec fn obeys_from_spec() -> bool { true }
    open spec fn from_spec(value: Interval<i16>) -> Self { match value { Interval::TwoSided(l, h) => (l, h), Interval::UpperOneSided(l) => (l, i16::MAX), Interval::LowerOneSided(h) => (i16::MIN, h) } }
}
//@impl src/interval.rs!impl_for_ints(i32) impl From<Interval<i32>> for (i32, i32)
//@fn from ret r
//@endimpl
impl FromSpecImpl<Interval<i32>> for (i32, i32) {
    open spec fn obeys_from_spec() -> bool { true }
    open spec fn from_spec(value: Interval<i32>) -> Self { match value { Interval::TwoSided(l, h) => (l, h), Interval::UpperOneSided(l) => (l, i32::MAX), Interval::LowerOneSided(h) => (i32::MIN, h) } }
}
//@impl src/interval.rs!impl_for_ints(i64) impl From<Interval<i64>> for (i64, i64)
//@fn from ret r
//@endimpl
impl FromSpecImpl<Interval<i64>> for (i64, i64) {
    open spec fn obeys_from_spec() -> bool { true }
    open spec fn from_spec(value: Interval<i64>) -> Self { match value { Interval::TwoSided(l, h) => (l, h), Interval::UpperOneSided(l) => (l, i64::MAX), Interval::LowerOneSided(h) => (i64::MIN, h) } }
}
//@impl src/interval.rs!impl_for_ints(i128) impl From<Interval<i128>> for (i128, i128)
//@fn from ret r
//@endimpl
impl FromSpecImpl<Interval<i128>> for (i128, i128) {
    open spec fn obeys_from_spec() -> bool { true }
    open spec fn from_spec(value: Interval<i128>) -> Self { match value { Interval::TwoSided(l, h) => (l, h), Interval::UpperOneSided(l) => (l, i128::MAX), Interval::LowerOneSided(h) => (i128::MIN, h) } }
}
//@impl src/interval.rs!impl_for_ints(u8) impl From<Interval<u8>> for (u8, u8)
//@fn from ret r
//@endimpl
impl FromSpecImpl<Interval<u8>> for (u8, u8) {
    open spec fn obeys_from_spec() -> bool { true }
    open spec fn from_spec(value: Interval<u8>) -> Self { match value { Interval::TwoSided(l, h) => (l, h), Interval::UpperOneSided(l) => (l, u8::MAX), Interval::LowerOneSided(h) => (u8::MIN, h) } }
}
//@impl src/interval.rs!impl_for_ints(u16) impl From<Interval<u16>> for (u16, u16)
//@fn from ret r
//@endimpl
impl FromSpecImpl<Interval<u16>> for (u16, u16) {
    open spec fn obeys_from_spec() -> bool { true }
    open spec fn from_spec(value: Interval<u16>) -> Self { match value { Interval::TwoSided(l, h) => (l, h), Interval::UpperOneSided(l) => (l, u16::MAX), Interval::LowerOneSided(h) => (u16::MIN, h) } }
}
//@impl src/interval.rs!impl_for_ints(u32) impl From<Interval<u32>> for (u32, u32)
//@fn from ret r
//@endimpl
impl FromSpecImpl<Interval<u32>> for (u32, u32) {
    open spec fn obeys_from_spec() -> bool { true }
    open spec fn from_spec(value: Interval<u32>) -> Self { match value { Interval::TwoSided(l, h) => (l, h), Interval::UpperOneSided(l) => (l, u32::MAX), Interval::LowerOneSided(h) => (u32::MIN, h) } }
}
//@impl src/interval.rs!impl_for_ints(u64) impl From<Interval<u64>> for (u64, u64)
//@fn from ret r
//@endimpl
impl FromSpecImpl<Interval<u64>> for (u64, u64) {
    open spec fn obeys_from_spec() -> bool { true }
    open spec fn from_spec(value: Interval<u64>) -> Self { match value { Interval::TwoSided(l, h) => (l, h), Interval::UpperOneSided(l) => (l, u64::MAX), Interval::LowerOneSided(h) => (u64::MIN, h) } }
}
//@impl src/interval.rs!impl_for_ints(u128) impl From<Interval<u128>> for (u128, u128)
//@fn from ret r
//@endimpl
impl FromSpecImpl<Interval<u128>> for (u128, u128) {
    open spec fn obeys_from_spec() -> bool { true }
    open spec fn from_spec(value: Interval<u128>) -> Self { match value { Interval::TwoSided(l, h) => (l, h), Interval::UpperOneSided(l) => (l, u128::MAX), Interval::LowerOneSided(h) => (u128::MIN, h) } }
}
//@impl src/interval.rs!impl_for_ints(isize) impl From<Interval<isize>> for (isize, isize)
//@fn from ret r
//@endimpl
impl FromSpecImpl<Interval<isize>> for (isize, isize) {
    open spec fn obeys_from_spec() -> bool { true }
    open spec fn from_spec(value: Interval<isize>) -> Self { match value { Interval::TwoSided(l, h) => (l, h), Interval::UpperOneSided(l) => (l, isize::MAX), Interval::LowerOneSided(h) => (isize::MIN, h) } }
}
//@impl src/interval.rs!impl_for_ints(usize) impl From<Interval<usize>> for (usize, usize)
//@fn from ret r
//@endimpl
impl FromSpecImpl<Interval<usize>> for (usize, usize) {
    open spec fn obeys_from_spec() -> bool { true }
    open spec fn from_spec(value: Interval<usize>) -> Self { match value { Interval::TwoSided(l, h) => (l, h), Interval::UpperOneSided(l) => (l, usize::MAX), Interval::LowerOneSided(h) => (usize::MIN, h) } }
}
