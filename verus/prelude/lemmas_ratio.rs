// ===== C02, success-ratio form on REAL floats: the ratio k/n computed in binary64 maps back to the count k =====
// The units verify the code in exact real arithmetic, where round((k/n) n) = k is trivial.  This lemma redoes that one step under
// the STANDARD MODEL of floating-point arithmetic (an assumption about IEEE-754 binary64, valid in the absence of overflow and
// underflow): each rounded operation returns the exact result times (1 + d) with |d| <= u = 2^-53.  With x = fl(k / n) and
// y = fl(x * n):  y = k (1 + d1)(1 + d2), so |y - k| <= k (2u + u^2) < 1/2 for k <= 2^50, hence round(y) = k.
pub open spec fn u53() -> real { 1real / 9007199254740992real }
pub open spec fn rounded_to(exact: real, computed: real) -> bool {
    exists|d: real| -u53() <= d <= u53() && #[trigger] rmul(exact, 1real + d) == computed
}
pub proof fn lemma_floor_unique(z: real, i: int)
    requires i as real <= z, z < (i + 1) as real,
    ensures floor_spec(z) == i,
{
    ax_floor(z);
}
pub proof fn lemma_ratio_round_trip_standard_model(k: nat, n: nat, x: real, y: real)
    requires 1 <= k <= n, n <= 1125899906842624,               // 2^50
             rounded_to((k as real) / (n as real), x),            // x = fl(k / n)
             rounded_to(x * (n as real), y),                      // y = fl(x * n)
    ensures round_spec(y) == k,
{
    let kr = k as real; let nr = n as real; let u = u53();
    let d1 = choose|d: real| -u53() <= d <= u53() && #[trigger] rmul(kr / nr, 1real + d) == x;
    let d2 = choose|d: real| -u53() <= d <= u53() && #[trigger] rmul(x * nr, 1real + d) == y;
    let q = kr / nr;
    assert(q * nr == kr) by(nonlinear_arith) requires q == kr / nr, nr >= 1real;
    let a = 1real + d1; let b = 1real + d2;
    assert(x == q * a);
    let xn = x * nr;
    assert(xn == kr * a) by(nonlinear_arith) requires xn == x * nr, x == q * a, q * nr == kr;
    assert(y == xn * b);
    let ab = a * b;
    assert(y == kr * ab) by(nonlinear_arith) requires y == xn * b, xn == kr * a, ab == a * b;
    // (1-u)^2 <= ab <= (1+u)^2, and k * ((1+u)^2 - 1) < 1/2
    let lo = (1real - u) * (1real - u); let hi = (1real + u) * (1real + u);
    assert(0real < 1real - u <= a <= 1real + u && 0real < 1real - u <= b <= 1real + u);
    assert(lo <= ab <= hi) by(nonlinear_arith) requires ab == a * b, lo == (1real - u) * (1real - u), hi == (1real + u) * (1real + u), 0real < 1real - u <= a <= 1real + u, 0real < 1real - u <= b <= 1real + u;
    let e = 3real * u;
    assert(hi <= 1real + e && lo >= 1real - e) by(nonlinear_arith) requires hi == (1real + u) * (1real + u), lo == (1real - u) * (1real - u), e == 3real * u, 0real < u <= 1real;
    assert(kr * e <= 0.375real) by(nonlinear_arith) requires e == 3real * u, u == 1real / 9007199254740992real, 1real <= kr <= 1125899906842624real;
    assert(kr * (1real - e) <= y <= kr * (1real + e)) by(nonlinear_arith) requires y == kr * ab, 1real - e <= lo <= ab, ab <= hi <= 1real + e, kr >= 1real;
    assert(kr - 0.375real <= y <= kr + 0.375real) by(nonlinear_arith) requires kr * (1real - e) <= y <= kr * (1real + e), kr * e <= 0.375real;
    assert(y >= 0real);
    lemma_floor_unique(y + 0.5real, k as int);
}
