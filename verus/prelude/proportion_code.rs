// ===== proportion.rs under contract =====
//@item src/proportion.rs struct Stats derive=Clone,Copy expect_derive=Default
impl Stats {
    pub closed spec fn pop(self) -> usize { self.population }
    pub closed spec fn succ(self) -> usize { self.successes }
}
// #[derive(Default)] restated (derive output is invisible to the extractor): all fields zero
impl Default for Stats { fn default() -> (r: Self) ensures r.pop() == 0, r.succ() == 0 { Stats { population: 0, successes: 0 } } }
//@impl src/proportion.rs impl Stats
//@fn new ret r
//@| requires successes <= population,
//@| ensures r.pop() == population, r.succ() == successes,
//@fn population ret r
//@| ensures r == self.pop(),
//@fn successes ret r
//@| ensures r == self.succ(),
//@fn add_success
//@| requires old(self).pop() < usize::MAX, old(self).succ() < usize::MAX,
//@| ensures final(self).pop() == old(self).pop() + 1, final(self).succ() == old(self).succ() + 1,
//@fn add_failure
//@| requires old(self).pop() < usize::MAX,
//@| ensures final(self).pop() == old(self).pop() + 1, final(self).succ() == old(self).succ(),
//@fn is_significant ret r
//@| ensures r == significant_spec(self.pop(), self.succ()),
//@fn ci ret r
//@| requires conf_valid(confidence),
//@| ensures r == wilson_spec(confidence, self.pop(), self.succ()),
//@fn extend
//@| requires old(self).succ() <= old(self).pop(), old(self).pop() + data.len() < usize::MAX,
//@| ensures final(self).pop() == old(self).pop() + data.len(), final(self).succ() == old(self).succ() + count_true(data@, data.len() as int),
//@loop 0| invariant self.succ() <= self.pop(), old(self).pop() + data.len() < usize::MAX,
//@loop 0|     self.pop() == old(self).pop() + it.index@, self.succ() == old(self).succ() + count_true(data@, it.index@ as int),
//@fn extend_if
//@| requires old(self).succ() <= old(self).pop(), old(self).pop() + data.len() < usize::MAX,
//@|     forall|x: &T| #[trigger] is_success.requires((x,)), pred_is_function(is_success),
//@| ensures final(self).pop() == old(self).pop() + data.len(), final(self).succ() == old(self).succ() + count_if(data@, data.len() as int, is_success),
//@loop 0| invariant self.succ() <= self.pop(), old(self).pop() + data.len() < usize::MAX, forall|x: &T| #[trigger] is_success.requires((x,)), pred_is_function(is_success),
//@loop 0|     self.pop() == old(self).pop() + it.index@, self.succ() == old(self).succ() + count_if(data@, it.index@ as int, is_success),
//@endimpl
// FromIterator<bool>: verified as an inherent function (a trait-method implementation cannot carry `requires`), the by-value
// iterable monomorphised to Vec<bool> (rule R4)
//@impl src/proportion.rs impl FromIterator<bool> for Stats => impl Stats
//@fn from_iter ret r vis pub
//@| requires iter.len() < usize::MAX,
//@| ensures r.pop() == iter.len(), r.succ() == count_true(iter@, iter.len() as int),
//@loop 0| invariant $mut0.succ() <= $mut0.pop(), iter.len() < usize::MAX,
//@loop 0|     $mut0.pop() == it.index@, $mut0.succ() == count_true(iter@, it.index@ as int),
//@endimpl
// how many elements of the prefix the predicate closure accepts (through the closure's own postcondition)
pub open spec fn accepts<T, F: Fn(&T) -> bool>(f: F, x: T) -> bool { f.ensures((&x,), true) }
// the predicate is a function of its argument (it cannot answer both true and false for the same element)
pub open spec fn pred_is_function<T, F: Fn(&T) -> bool>(f: F) -> bool { forall|x: &T| !(#[trigger] f.ensures((x,), true) && f.ensures((x,), false)) }
pub open spec fn count_if<T, F: Fn(&T) -> bool>(s: Seq<T>, k: int, f: F) -> nat decreases k {
    if k <= 0 { 0 } else { count_if(s, k - 1, f) + (if accepts(f, s[k - 1]) { 1nat } else { 0nat }) }
}
pub open spec fn significant_spec(n: usize, k: usize) -> bool { n > 30 && k > 5 && k <= n && n - k > 5 }

//@impl src/proportion.rs impl core::ops::Add for Stats
//@fn add ret r
//@endimpl
impl AddSpecImpl for Stats {
    open spec fn obeys_add_spec() -> bool { true }
    open spec fn add_req(self, rhs: Stats) -> bool { self.pop() + rhs.pop() <= usize::MAX && self.succ() + rhs.succ() <= usize::MAX }
    open spec fn add_spec(self, rhs: Stats) -> Stats { stats_merge(self, rhs) }
}
pub closed spec fn stats_merge(a: Stats, b: Stats) -> Stats { Stats { population: (a.population + b.population) as usize, successes: (a.successes + b.successes) as usize } }
pub proof fn lemma_stats_merge(a: Stats, b: Stats)
    requires a.pop() + b.pop() <= usize::MAX, a.succ() + b.succ() <= usize::MAX,
    ensures stats_merge(a, b).pop() == a.pop() + b.pop(), stats_merge(a, b).succ() == a.succ() + b.succ(),
{}
//@impl src/proportion.rs impl core::ops::AddAssign for Stats
//@fn add_assign
//@endimpl
impl AddAssignSpecImpl for Stats {
    open spec fn obeys_add_assign_spec() -> bool { true }
    open spec fn add_assign_req(self, rhs: Stats) -> bool { self.pop() + rhs.pop() <= usize::MAX && self.succ() + rhs.succ() <= usize::MAX }
    open spec fn add_assign_spec(self, rhs: Stats) -> Stats { stats_merge(self, rhs) }
}

//@freefn src/proportion.rs is_significant ret r
//@| ensures r == significant_spec(population, successes),
//@include prelude/wilson_code.rs
//@freefn src/proportion.rs ci ret r
//@| requires conf_valid(confidence),
//@| ensures r == wilson_spec(confidence, population, successes),
//@freefn src/proportion.rs ci_wilson_ratio ret r
//@| requires conf_valid(confidence),
//@| ensures success_rate.v() <= 0real ==> r == Err::<Interval<R>, CIError>(CIError::NonPositiveValue(success_rate)),
//@|         success_rate.v() > 0real ==> r == wilson_spec(confidence, population, ratio_count(population, success_rate.v())),
//@freefn src/proportion.rs ci_z_normal ret r
//@| requires conf_valid(confidence),
//@| ensures r == wald_spec(confidence, population, successes),
//@freefn src/proportion.rs ci_true ret r
//@| requires conf_valid(confidence), data.len() < usize::MAX,
//@| ensures r == wilson_spec(confidence, data.len(), count_true(data@, data.len() as int) as usize),
//@freefn src/proportion.rs ci_if ret r
//@| requires conf_valid(confidence), data.len() < usize::MAX, forall|x: &T| #[trigger] cond.requires((x,)), pred_is_function(cond),
//@| ensures r == wilson_spec(confidence, data.len(), count_if(data@, data.len() as int, cond) as usize),
