// ===== quantile.rs under contract =====
// macro-generated `From<Interval<f64>> for (f64, f64)` (impl_for_floats!): the invocation is expanded at check time (rule M1) and the
// generated impl verified like any other; one-sided intervals project their missing side to an unspecified "infinite" value
//@impl src/interval.rs!impl_for_floats(f64) impl From<Interval<f64>> for (f64, f64)
//@fn from ret r
//@| ensures value is TwoSided ==> r.0 == value->TwoSided_0 && r.1 == value->TwoSided_1,
//@|         value is UpperOneSided ==> r.0 == value->UpperOneSided_0,
//@|         value is LowerOneSided ==> r.1 == value->LowerOneSided_0,
//@endimpl
impl vstd::std_specs::convert::FromSpecImpl<Interval<R>> for (R, R) {
    open spec fn obeys_from_spec() -> bool { false }
    open spec fn from_spec(value: Interval<R>) -> Self { arbitrary() }
}
//@item src/quantile.rs struct Stats derive=Clone,Copy expect_derive=Default
impl Stats { pub closed spec fn pop(self) -> usize { self.population } }
// #[derive(Default)] restated
impl Default for Stats { fn default() -> (r: Self) ensures r.pop() == 0 { Stats { population: 0 } } }
//@impl src/quantile.rs impl Stats
//@fn new ret r
//@| ensures r.pop() == population,
//@fn index ret r
//@| ensures r == index_spec(self.pop(), quantile.v(), quantile),
//@fn ci ret r
//@subst "proportion_ci.into()" => "<(R, R)>::from(proportion_ci)"
//@| requires conf_valid(confidence),
//@| ensures r == qci_spec(confidence, self.pop(), quantile),
//@endimpl
//@impl src/quantile.rs impl core::ops::Add for Stats
//@fn add ret r
//@endimpl
impl AddSpecImpl for Stats {
    open spec fn obeys_add_spec() -> bool { true }
    open spec fn add_req(self, rhs: Stats) -> bool { self.pop() + rhs.pop() <= usize::MAX }
    open spec fn add_spec(self, rhs: Stats) -> Stats { qstats_merge(self, rhs) }
}
pub closed spec fn qstats_merge(a: Stats, b: Stats) -> Stats { Stats { population: (a.population + b.population) as usize } }
pub proof fn lemma_qstats_merge(a: Stats, b: Stats) requires a.pop() + b.pop() <= usize::MAX ensures qstats_merge(a, b).pop() == a.pop() + b.pop() {}
//@impl src/quantile.rs impl core::ops::AddAssign for Stats
//@fn add_assign
//@endimpl
impl AddAssignSpecImpl for Stats {
    open spec fn obeys_add_assign_spec() -> bool { true }
    open spec fn add_assign_req(self, rhs: Stats) -> bool { self.pop() + rhs.pop() <= usize::MAX }
    open spec fn add_assign_spec(self, rhs: Stats) -> Stats { qstats_merge(self, rhs) }
}
//@freefn src/quantile.rs ci_indices ret r
//@| requires conf_valid(confidence),
//@| ensures r == qci_spec(confidence, data_len, quantile),

// ---- the element-level entry point on pre-sorted data (generic element type): order statistics at the ranks
//@impl src/interval.rs impl<T: PartialOrd + Clone> From<Interval<T>> for (Option<T>, Option<T>)
//@fn from ret r
//@| ensures r == opt_pair_of(interval),
//@endimpl
impl<T: PartialOrd + Clone> vstd::std_specs::convert::FromSpecImpl<Interval<T>> for (Option<T>, Option<T>) {
    open spec fn obeys_from_spec() -> bool { true }
    open spec fn from_spec(i: Interval<T>) -> Self { opt_pair_of(i) }
}
pub open spec fn opt_pair_of<T: PartialOrd>(i: Interval<T>) -> (Option<T>, Option<T>) {
    match i {
        Interval::TwoSided(l, h) => (Some(l), Some(h)),
        Interval::UpperOneSided(l) => (Some(l), None),
        Interval::LowerOneSided(h) => (None, Some(h)),
    }
}
//@freefn src/quantile.rs ci_sorted_unchecked ret r
//@subst "indices.into()" => "<(Option<usize>, Option<usize>)>::from(indices)"
//@| requires conf_valid(confidence), T::obeys_partial_cmp_spec(),
//@| ensures qci_spec(confidence, sorted.len(), quantile) is Err ==> r is Err && r->Err_0 == qci_spec(confidence, sorted.len(), quantile)->Err_0,
//@|         qci_spec(confidence, sorted.len(), quantile) is Ok ==> elements_at(qci_spec(confidence, sorted.len(), quantile)->Ok_0, sorted@, r),

// ---- the copy-and-sort front-ends (C03: "whatever the data order")
// ASSUMED specifications of std (trusted, DESIGN 9.3): slice::sort_by leaves a permutation of the slice in which no earlier
// element compares Greater than a later one -- stated through the comparison closure's own contract, so the closure that the
// repository passes is checked, not assumed; `iter().copied().collect()` on a Vec of Copy items yields the same sequence.
pub open spec fn nongreater<T, F: FnMut(&T, &T) -> Ordering>(f: F, a: T, b: T) -> bool {
    exists|o: Ordering| #[trigger] f.ensures((&a, &b), o) && o != Ordering::Greater
}
pub assume_specification<T, F: FnMut(&T, &T) -> Ordering> [<[T]>::sort_by] (s: &mut [T], compare: F)
    requires forall|a: &T, b: &T| compare.requires((a, b)),
    ensures final(s)@.to_multiset() == old(s)@.to_multiset(),
        forall|i: int, j: int| 0 <= i < j < final(s)@.len() ==> nongreater(compare, #[trigger] final(s)@[i], #[trigger] final(s)@[j]);
#[verifier::external_body]
pub fn copied_collect<T: Copy>(data: &Vec<T>) -> (r: Vec<T>) ensures r@ == data@ { data.iter().copied().collect() }

// the sample in ascending order: a permutation of the data in which earlier elements are <= later ones
pub open spec fn ascending<T: PartialOrd>(s: Seq<T>) -> bool { forall|i: int, j: int| 0 <= i < j < s.len() ==> le(#[trigger] s[i], #[trigger] s[j]) }
pub open spec fn sorted_sample<T: PartialOrd>(s: Seq<T>, data: Seq<T>) -> bool { s.to_multiset() == data.to_multiset() && ascending(s) }
// what every element-level entry point returns for the ascending sample s (the contract of ci_sorted_unchecked)
pub open spec fn quantile_ci_of<T: PartialOrd + Clone>(confidence: Confidence, s: Seq<T>, quantile: R, r: CIResult<Interval<T>>) -> bool {
    &&& qci_spec(confidence, s.len() as usize, quantile) is Err ==> r is Err && r->Err_0 == qci_spec(confidence, s.len() as usize, quantile)->Err_0
    &&& qci_spec(confidence, s.len() as usize, quantile) is Ok ==> elements_at(qci_spec(confidence, s.len() as usize, quantile)->Ok_0, s, r)
}
pub open spec fn comparable<T: PartialOrd>() -> bool {
    T::obeys_partial_cmp_spec() && forall|a: T, b: T| #[trigger] a.partial_cmp_spec(&b) is Some
}
//@freefn src/quantile.rs ci ret r
//@subst "data.into_iter().copied().collect()" => "copied_collect(data)"
//@closure 0| (&T, &T) -> Ordering | ensures Some(r__) == $0.partial_cmp_spec($1)
//@at "ci_sorted_unchecked"| proof { assert(sorted_sample($mut0@, data@)); } // ghost: names the witness of the postcondition's `exists`
//@| requires conf_valid(confidence), comparable::<T>(),
//@| ensures exists|s: Seq<T>| #[trigger] sorted_sample(s, data@) && quantile_ci_of(confidence, s, quantile, r),
// fixed-capacity variant: ArrayVec<T, CAP> is MODELLED by Vec<T> under the documented capacity precondition (collect panics beyond CAP)
//@freefn src/quantile.rs ci_max_size ret r
//@subst "use arrayvec::ArrayVec;" => ""
//@subst "ArrayVec<T, CAP>" => "Vec<T>"
//@subst "data.into_iter().copied().collect()" => "copied_collect(data)"
//@closure 0| (&T, &T) -> Ordering | ensures Some(r__) == $0.partial_cmp_spec($1)
//@at "ci_sorted_unchecked"| proof { assert(sorted_sample($mut0@, data@)); } // ghost: names the witness of the postcondition's `exists`
//@| requires conf_valid(confidence), comparable::<T>(), data.len() <= CAP,
//@| ensures exists|s: Seq<T>| #[trigger] sorted_sample(s, data@) && quantile_ci_of(confidence, s, quantile, r),
