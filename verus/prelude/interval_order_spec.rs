// ===== C15: the order on intervals, written from the property (not from the code) =====
// equality of T as `==` sees it is equality of values
pub open spec fn eq_coherent<T: PartialOrd>() -> bool {
    &&& T::obeys_eq_spec()
    &&& forall|a: T, b: T| #[trigger] a.eq_spec(&b) <==> a == b
}
// derive(PartialEq) on the enum: same variant, equal fields
pub open spec fn ieq<T: PartialOrd>(a: Interval<T>, b: Interval<T>) -> bool {
    match (a, b) {
        (Interval::TwoSided(x, y), Interval::TwoSided(p, q)) => x.eq_spec(&p) && y.eq_spec(&q),
        (Interval::UpperOneSided(x), Interval::UpperOneSided(p)) => x.eq_spec(&p),
        (Interval::LowerOneSided(y), Interval::LowerOneSided(q)) => y.eq_spec(&q),
        _ => false,
    }
}
pub open spec fn sup_of<T: PartialOrd>(a: Interval<T>) -> Option<T> {
    match a { Interval::TwoSided(_, h) => Some(h), Interval::LowerOneSided(h) => Some(h), Interval::UpperOneSided(_) => None }
}
pub open spec fn inf_of<T: PartialOrd>(a: Interval<T>) -> Option<T> {
    match a { Interval::TwoSided(l, _) => Some(l), Interval::UpperOneSided(l) => Some(l), Interval::LowerOneSided(_) => None }
}
// "a entirely before b": the greatest member of a exists, the least member of b exists, and the former is <= the latter
pub open spec fn before<T: PartialOrd>(a: Interval<T>, b: Interval<T>) -> bool {
    sup_of(a) is Some && inf_of(b) is Some && le(sup_of(a)->Some_0, inf_of(b)->Some_0)
}
// the property: Equal exactly when a == b; Less exactly when a != b and a is entirely before b; Greater is the mirror image
pub open spec fn cmp_spec<T: PartialOrd>(a: Interval<T>, b: Interval<T>) -> Option<Ordering> {
    if a == b { Some(Ordering::Equal) }
    else if before(a, b) { Some(Ordering::Less) }
    else if before(b, a) { Some(Ordering::Greater) }
    else { None }
}
// every member of a is <= every member of b
pub open spec fn all_le<T: PartialOrd>(a: Interval<T>, b: Interval<T>) -> bool {
    forall|x: T, y: T| #[trigger] den(a, x) && #[trigger] den(b, y) ==> le(x, y)
}

pub proof fn lemma_before_is_memberwise<T: PartialOrd>(a: Interval<T>, b: Interval<T>)
    requires total_order::<T>(), unbounded::<T>(), wf(a), wf(b),
    ensures before(a, b) <==> all_le(a, b),
{
    if before(a, b) {
        let h = sup_of(a)->Some_0; let l = inf_of(b)->Some_0;
        assert forall|x: T, y: T| #[trigger] den(a, x) && #[trigger] den(b, y) implies le(x, y) by {
            lemma_trans(x, h, l); lemma_trans(x, l, y);
        }
    } else {
        // a member of a that exceeds a member of b
        match (sup_of(a), inf_of(b)) {
            (Some(h), Some(l)) => {
                lemma_ord(h, l); lemma_ord(h, h); lemma_ord(l, l);
                assert(den(a, h)) by { match a { Interval::TwoSided(p, q) => {}, _ => {} } }
                assert(den(b, l)) by { match b { Interval::TwoSided(p, q) => {}, _ => {} } }
                assert(den(a, h) && den(b, l) && !le(h, l));
            },
            (None, Some(l)) => {
                let lo = inf_of(a)->Some_0;
                let w = lemma_above2(lo, l);
                lemma_ord(l, l);
                assert(den(b, l)) by { match b { Interval::TwoSided(p, q) => {}, _ => {} } }
                assert(den(a, w) && den(b, l) && !le(w, l));
            },
            (Some(h), None) => {
                let hi = sup_of(b)->Some_0;
                let w = lemma_below2(h, hi);
                lemma_ord(h, h);
                assert(den(a, h)) by { match a { Interval::TwoSided(p, q) => {}, _ => {} } }
                assert(den(a, h) && den(b, w) && !le(h, w));
            },
            (None, None) => {
                let lo = inf_of(a)->Some_0; let hi = sup_of(b)->Some_0;
                let w = lemma_above2(lo, hi);
                lemma_ord(hi, hi); lemma_ord(hi, w);
                assert(den(a, w) && den(b, hi) && !le(w, hi));
            },
        }
    }
}
// C15, clause by clause, over the spec function the extracted partial_cmp is proved equal to
pub proof fn lemma_cmp_equal_iff_eq<T: PartialOrd>(a: Interval<T>, b: Interval<T>)
    ensures cmp_spec(a, b) == Some(Ordering::Equal) <==> a == b,
{}
pub proof fn lemma_cmp_less_iff_memberwise<T: PartialOrd>(a: Interval<T>, b: Interval<T>)
    requires total_order::<T>(), unbounded::<T>(), wf(a), wf(b),
    ensures cmp_spec(a, b) == Some(Ordering::Less) <==> (a != b && all_le(a, b)),
{ lemma_before_is_memberwise(a, b); }
pub proof fn lemma_both_before_is_equal<T: PartialOrd>(a: Interval<T>, b: Interval<T>)
    requires total_order::<T>(), wf(a), wf(b), before(a, b), before(b, a),
    ensures a == b,
{
    match (a, b) {
        (Interval::TwoSided(x, y), Interval::TwoSided(p, q)) => {
            // x <= y <= p <= q <= x
            lemma_trans(x, y, p); lemma_trans(p, q, x); lemma_ord(x, p);
            lemma_trans(y, p, q); lemma_trans(q, x, y); lemma_ord(y, q);
        },
        _ => {},
    }
}
pub proof fn lemma_cmp_antisymmetric<T: PartialOrd>(a: Interval<T>, b: Interval<T>)
    requires total_order::<T>(), wf(a), wf(b),
    ensures cmp_spec(a, b) == Some(Ordering::Less) <==> cmp_spec(b, a) == Some(Ordering::Greater),
            cmp_spec(a, b) == Some(Ordering::Greater) <==> cmp_spec(b, a) == Some(Ordering::Less),
            cmp_spec(a, b) is None <==> cmp_spec(b, a) is None,
{
    if before(a, b) && before(b, a) { lemma_both_before_is_equal(a, b); }
}
pub proof fn lemma_cmp_transitive<T: PartialOrd>(a: Interval<T>, b: Interval<T>, c: Interval<T>)
    requires total_order::<T>(), wf(a), wf(b), wf(c),
             cmp_spec(a, b) == Some(Ordering::Less), cmp_spec(b, c) == Some(Ordering::Less),
    ensures cmp_spec(a, c) == Some(Ordering::Less),
{
    if before(a, b) && before(b, a) { lemma_both_before_is_equal(a, b); }
    if before(b, c) && before(c, b) { lemma_both_before_is_equal(b, c); }
    // b has both bounds: sup(a) <= inf(b) <= sup(b) <= inf(c)
    let h = sup_of(a)->Some_0; let l = inf_of(c)->Some_0;
    match b {
        Interval::TwoSided(p, q) => {
            lemma_trans(h, p, q); lemma_trans(h, q, l);
            assert(before(a, c));
            if a == c {
                // then c is before b as well, so b == c: contradiction with b < c
                lemma_trans(q, l, h); lemma_trans(q, h, p);
                match a { Interval::TwoSided(x, y) => { lemma_trans(x, y, p); lemma_trans(q, x, y); assert(before(c, b)); lemma_both_before_is_equal(b, c); }, _ => {} }
            }
        },
        _ => {},
    }
}
pub proof fn lemma_cmp_incomparable<T: PartialOrd>(a: Interval<T>, b: Interval<T>, x: T, y: T)
    requires total_order::<T>(), wf(a), wf(b), a != b,
    ensures ((a is UpperOneSided && b is UpperOneSided) || (a is LowerOneSided && b is LowerOneSided)) ==> cmp_spec(a, b) is None,
            (x != y && den(a, x) && den(b, x) && den(a, y) && den(b, y)) ==> cmp_spec(a, b) is None,
{
    if x != y && den(a, x) && den(b, x) && den(a, y) && den(b, y) {
        lemma_ord(x, y);
        if before(a, b) {
            let h = sup_of(a)->Some_0; let l = inf_of(b)->Some_0;
            // l <= x, y <= h <= l  =>  x == y
            lemma_trans(x, h, l); lemma_trans(y, h, l); lemma_ord(x, l); lemma_ord(y, l);
        }
        if before(b, a) {
            let h = sup_of(b)->Some_0; let l = inf_of(a)->Some_0;
            lemma_trans(x, h, l); lemma_trans(y, h, l); lemma_ord(x, l); lemma_ord(y, l);
        }
    }
}
