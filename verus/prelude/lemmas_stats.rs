// ===== pure lemmas about the sample statistics (no code involved) =====
// centred sum of squares about an arbitrary centre m
pub open spec fn css_to(s: Seq<R>, k: int, m: real) -> real decreases k {
    if k <= 0 { 0real } else { css_to(s, k - 1, m) + (s[k - 1].v() - m) * (s[k - 1].v() - m) }
}
pub proof fn lemma_css_expand(s: Seq<R>, k: int, m: real)
    requires 0 <= k <= s.len(),
    ensures css_to(s, k, m) == sumsq_to(s, k) - 2real * m * sum_to(s, k) + (k as real) * m * m,
    decreases k,
{
    if k > 0 {
        lemma_css_expand(s, k - 1, m);
        let x = s[k - 1].v();
        let xx = x * x;
        let mx = m * x;
        let mm = m * m;
        let s0 = sum_to(s, k - 1);
        let s1 = sum_to(s, k);
        let q0 = sumsq_to(s, k - 1);
        let ms0 = m * s0;
        let k0 = (k - 1) as real;
        let k1 = k as real;
        assert(s1 == s0 + x);
        assert(rmul(x, x) == xx);
        assert(sumsq_to(s, k) == q0 + xx);
        let sq = (x - m) * (x - m);
        assert(css_to(s, k, m) == css_to(s, k - 1, m) + sq);
        assert(sq == xx - 2real * mx + mm) by(nonlinear_arith) requires sq == (x - m) * (x - m), xx == x * x, mx == m * x, mm == m * m;
        let a0 = 2real * m * s0;
        let a1 = 2real * m * s1;
        assert(a1 == a0 + 2real * mx) by(nonlinear_arith) requires a0 == 2real * m * s0, a1 == 2real * m * s1, s1 == s0 + x, mx == m * x;
        let b0 = k0 * m * m;
        let b1 = k1 * m * m;
        assert(b1 == b0 + mm) by(nonlinear_arith) requires b0 == k0 * m * m, b1 == k1 * m * m, k1 == k0 + 1real, mm == m * m;
        assert(css_to(s, k - 1, m) == q0 - a0 + b0);
        assert(css_to(s, k, m) == (q0 + xx) - a1 + b1);
        assert(sumsq_to(s, k) - 2real * m * sum_to(s, k) + (k as real) * m * m == (q0 + xx) - a1 + b1);
    } else {
        assert(2real * m * 0real == 0real) by(nonlinear_arith);
        assert(0real * m * m == 0real) by(nonlinear_arith);
    }
}
pub proof fn lemma_css_nonneg(s: Seq<R>, k: int, m: real)
    requires 0 <= k <= s.len(),
    ensures css_to(s, k, m) >= 0real,
    decreases k,
{
    if k > 0 {
        lemma_css_nonneg(s, k - 1, m);
        let d = s[k - 1].v() - m;
        assert(d * d >= 0real) by(nonlinear_arith);
    }
}
// C01: the state's one-pass variance IS the (n-1)-denominator variance of the data, sum (x - mean)^2 / (n - 1),
// hence non-negative, so the clamp in sample_variance never fires over the reals
pub proof fn lemma_var_is_centered_ss(s: Seq<R>)
    requires s.len() >= 2,
    ensures ({
        let n = s.len() as int;
        let sm = sum_to(s, n);
        let q = sumsq_to(s, n);
        let m = sm / (n as real);
        &&& mean_of(sm, n as nat) == m
        &&& var_raw(sm, q, n as nat) == css_to(s, n, m) / ((n - 1) as real)
        &&& var_raw(sm, q, n as nat) >= 0real
        &&& var_of(sm, q, n as nat) == var_raw(sm, q, n as nat)
    }),
{
    let n = s.len() as int;
    let nr = n as real;
    let sm = sum_to(s, n);
    let q = sumsq_to(s, n);
    let m = sm / nr;
    lemma_css_expand(s, n, m);
    lemma_css_nonneg(s, n, m);
    assert(m * nr == sm) by(nonlinear_arith) requires m == sm / nr, nr >= 2real;
    let msm = m * sm;
    let mm = m * m;
    assert(nr * m * m == msm) by(nonlinear_arith) requires m * nr == sm, msm == m * sm;
    assert(2real * m * sm == 2real * msm) by(nonlinear_arith) requires msm == m * sm;
    assert(css_to(s, n, m) == q - msm);
    assert(rmul(m, sm) == msm);
    let d = (n - 1) as real;
    assert(d >= 1real);
    assert(css_to(s, n, m) / d >= 0real) by(nonlinear_arith) requires css_to(s, n, m) >= 0real, d >= 1real;
}

// C09: sums are a monoid homomorphism from sequences under concatenation ...
pub proof fn lemma_sum_concat(a: Seq<R>, b: Seq<R>, k: int)
    requires 0 <= k <= b.len(),
    ensures sum_to(a + b, a.len() + k) == sum_to(a, a.len() as int) + sum_to(b, k),
            sumsq_to(a + b, a.len() + k) == sumsq_to(a, a.len() as int) + sumsq_to(b, k),
    decreases k,
{
    if k == 0 {
        lemma_sum_prefix_ext(a + b, a, a.len() as int);
    } else {
        lemma_sum_concat(a, b, k - 1);
        assert((a + b)[a.len() + k - 1] == b[k - 1]);
    }
}
pub proof fn lemma_sum_prefix_ext(s: Seq<R>, t: Seq<R>, k: int)
    requires 0 <= k <= s.len(), k <= t.len(), forall|i: int| 0 <= i < k ==> s[i] == t[i],
    ensures sum_to(s, k) == sum_to(t, k), sumsq_to(s, k) == sumsq_to(t, k),
    decreases k,
{
    if k > 0 { lemma_sum_prefix_ext(s, t, k - 1); }
}
// ... and invariant under exchanging two adjacent observations (adjacent transpositions generate every reordering)
pub proof fn lemma_sum_swap_adjacent(s: Seq<R>, i: int)
    requires 0 <= i, i + 1 < s.len(),
    ensures ({
        let t = s.update(i, s[i + 1]).update(i + 1, s[i]);
        sum_to(t, s.len() as int) == sum_to(s, s.len() as int) && sumsq_to(t, s.len() as int) == sumsq_to(s, s.len() as int)
    }),
{
    let t = s.update(i, s[i + 1]).update(i + 1, s[i]);
    lemma_sum_prefix_ext(t, s, i);
    assert(sum_to(t, i + 2) == sum_to(s, i + 2) && sumsq_to(t, i + 2) == sumsq_to(s, i + 2)) by {
        assert(sum_to(t, i + 1) == sum_to(t, i) + t[i].v());
        assert(sum_to(t, i + 2) == sum_to(t, i + 1) + t[i + 1].v());
        assert(sum_to(s, i + 1) == sum_to(s, i) + s[i].v());
        assert(sum_to(s, i + 2) == sum_to(s, i + 1) + s[i + 1].v());
        assert(sumsq_to(t, i + 1) == sumsq_to(t, i) + rmul(t[i].v(), t[i].v()));
        assert(sumsq_to(t, i + 2) == sumsq_to(t, i + 1) + rmul(t[i + 1].v(), t[i + 1].v()));
        assert(sumsq_to(s, i + 1) == sumsq_to(s, i) + rmul(s[i].v(), s[i].v()));
        assert(sumsq_to(s, i + 2) == sumsq_to(s, i + 1) + rmul(s[i + 1].v(), s[i + 1].v()));
    }
    lemma_sum_suffix_ext(t, s, i + 2, s.len() as int);
}
pub proof fn lemma_sum_suffix_ext(s: Seq<R>, t: Seq<R>, j: int, k: int)
    requires 0 <= j <= k <= s.len(), s.len() == t.len(), forall|i: int| j <= i < k ==> s[i] == t[i],
             sum_to(s, j) == sum_to(t, j), sumsq_to(s, j) == sumsq_to(t, j),
    ensures sum_to(s, k) == sum_to(t, k), sumsq_to(s, k) == sumsq_to(t, k),
    decreases k - j,
{
    if k > j { lemma_sum_suffix_ext(s, t, j, k - 1); }
}
// every merge tree over chunks has the view of the concatenation of its leaves (C09: all groupings, incl. empty chunks)
pub enum MergeTree { Chunk(Seq<R>), Merge(Box<MergeTree>, Box<MergeTree>) }
pub open spec fn tree_data(t: MergeTree) -> Seq<R> decreases t {
    match t { MergeTree::Chunk(xs) => xs, MergeTree::Merge(l, r) => tree_data(*l) + tree_data(*r) }
}
// the view the implementation's operations produce: from_iter / extend at the leaves, + at the nodes
pub open spec fn tree_view(t: MergeTree) -> (real, real, nat) decreases t {
    match t {
        MergeTree::Chunk(xs) => (sum_to(xs, xs.len() as int), sumsq_to(xs, xs.len() as int), xs.len()),
        MergeTree::Merge(l, r) => (tree_view(*l).0 + tree_view(*r).0, tree_view(*l).1 + tree_view(*r).1, tree_view(*l).2 + tree_view(*r).2),
    }
}
pub proof fn lemma_merge_tree_is_batch(t: MergeTree)
    ensures tree_view(t) == tree_view(MergeTree::Chunk(tree_data(t))),
    decreases t,
{
    match t {
        MergeTree::Chunk(xs) => {},
        MergeTree::Merge(l, r) => {
            lemma_merge_tree_is_batch(*l);
            lemma_merge_tree_is_batch(*r);
            let a = tree_data(*l);
            let b = tree_data(*r);
            lemma_sum_concat(a, b, b.len() as int);
            assert((a + b).len() == a.len() + b.len());
        },
    }
}
