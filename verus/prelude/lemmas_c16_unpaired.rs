// ===== C16 for the unpaired comparison: x -> c x + d (c > 0) applied to BOTH samples scales every bound by c (the shift cancels in
// the difference of means; the effective degrees of freedom are invariant because numerator and denominator both scale by c^4) =====
pub proof fn lemma_var_of_scale(s: real, q: real, n: nat, c: real, d: real)
    requires n >= 2, c > 0real,
    ensures ({
        let nr = n as real;
        let (s2, q2) = (c * s + nr * d, c * c * q + 2real * c * d * s + nr * d * d);
        &&& mean_of(s2, n) == c * mean_of(s, n) + d
        &&& var_of(s2, q2, n) == c * c * var_of(s, q, n)
        &&& var_of(s, q, n) >= 0real
        &&& welch_x(s2, q2, n) == c * c * welch_x(s, q, n)
        &&& welch_x(s, q, n) >= 0real
    }),
{
    let nr = n as real;
    let (s2, q2) = (c * s + nr * d, c * c * q + 2real * c * d * s + nr * d * d);
    lemma_view_affine(s, q, n, c, d);
    let cc = c * c;
    assert(cc > 0real) by(nonlinear_arith) requires c > 0real, cc == c * c;
    let r = var_raw(s, q, n);
    if r < 0real { assert(cc * r < 0real) by(nonlinear_arith) requires cc > 0real, r < 0real; assert(cc * 0real == 0real) by(nonlinear_arith); }
    else { assert(cc * r >= 0real) by(nonlinear_arith) requires cc > 0real, r >= 0real; }
    let v = var_of(s, q, n);
    assert(var_of(s2, q2, n) == cc * v);
    assert((cc * v) / nr == cc * (v / nr)) by(nonlinear_arith) requires nr >= 2real;
    assert(v / nr >= 0real) by(nonlinear_arith) requires v >= 0real, nr >= 2real;
}
pub proof fn lemma_welch_dof_scale(x: real, na: nat, y: real, nb: nat, k: real)
    requires x >= 0real, y >= 0real, x + y > 0real, k > 0real,
    ensures welch_dof(k * x, na, k * y, nb) == welch_dof(x, na, y, nb),
{
    let a = (na + 1) as real;
    let b = (nb + 1) as real;
    let (xx, yy, s) = (x * x, y * y, x + y);
    let ss = s * s;
    let kk = k * k;
    let (x2, y2) = (k * x, k * y);
    assert(kk > 0real) by(nonlinear_arith) requires k > 0real, kk == k * k;
    assert(x2 * x2 == kk * xx) by(nonlinear_arith) requires x2 == k * x, kk == k * k, xx == x * x;
    assert(y2 * y2 == kk * yy) by(nonlinear_arith) requires y2 == k * y, kk == k * k, yy == y * y;
    assert((x2 + y2) * (x2 + y2) == kk * ss) by(nonlinear_arith) requires x2 == k * x, y2 == k * y, kk == k * k, ss == s * s, s == x + y;
    let (p, q) = (xx / a, yy / b);
    assert((kk * xx) / a == kk * p) by(nonlinear_arith) requires p == xx / a, a >= 1real;
    assert((kk * yy) / b == kk * q) by(nonlinear_arith) requires q == yy / b, b >= 1real;
    let dd = p + q;
    assert(xx >= 0real && yy >= 0real && (xx > 0real || yy > 0real)) by(nonlinear_arith) requires x >= 0real, y >= 0real, x + y > 0real, xx == x * x, yy == y * y;
    assert(p >= 0real && q >= 0real && (p > 0real || q > 0real)) by(nonlinear_arith) requires p == xx / a, q == yy / b, a >= 1real, b >= 1real, xx >= 0real, yy >= 0real, xx > 0real || yy > 0real;
    assert(dd > 0real);
    assert(kk * p + kk * q == kk * dd) by(nonlinear_arith) requires dd == p + q;
    assert((kk * ss) / (kk * dd) == ss / dd) by(nonlinear_arith) requires kk > 0real, dd > 0real;
    assert(kk * dd > 0real) by(nonlinear_arith) requires kk > 0real, dd > 0real;
    assert(rmul(x2, x2) == kk * xx && rmul(y2, y2) == kk * yy && rmul(x2 + y2, x2 + y2) == kk * ss);
    assert(rmul(x, x) == xx && rmul(y, y) == yy && rmul(x + y, x + y) == ss);
    assert(rdiv(kk * xx, a) == kk * p && rdiv(kk * yy, b) == kk * q && rdiv(xx, a) == p && rdiv(yy, b) == q);
    assert(rdiv(kk * ss, kk * dd) == (kk * ss) / (kk * dd));
    assert(rdiv(ss, dd) == ss / dd);
}
pub proof fn lemma_unpaired_ci_affine(cf: Confidence, sa: real, qa: real, na: nat, sb: real, qb: real, nb: nat, c: real, d: real)
    requires na >= 2, nb >= 2, c > 0real,
    ensures ({
        let (ra, rb) = (na as real, nb as real);
        let (sa2, qa2) = (c * sa + ra * d, c * c * qa + 2real * c * d * sa + ra * d * d);
        let (sb2, qb2) = (c * sb + rb * d, c * c * qb + 2real * c * d * sb + rb * d * d);
        &&& unpaired_lo(cf, sa2, qa2, na, sb2, qb2, nb) == c * unpaired_lo(cf, sa, qa, na, sb, qb, nb)
        &&& unpaired_hi(cf, sa2, qa2, na, sb2, qb2, nb) == c * unpaired_hi(cf, sa, qa, na, sb, qb, nb)
    }),
{
    let (ra, rb) = (na as real, nb as real);
    let (sa2, qa2) = (c * sa + ra * d, c * c * qa + 2real * c * d * sa + ra * d * d);
    let (sb2, qb2) = (c * sb + rb * d, c * c * qb + 2real * c * d * sb + rb * d * d);
    lemma_var_of_scale(sa, qa, na, c, d);
    lemma_var_of_scale(sb, qb, nb, c, d);
    let (x, y) = (welch_x(sa, qa, na), welch_x(sb, qb, nb));
    let (x2, y2) = (welch_x(sa2, qa2, na), welch_x(sb2, qb2, nb));
    let cc = c * c;
    assert(cc > 0real) by(nonlinear_arith) requires c > 0real, cc == c * c;
    assert(x2 == cc * x && y2 == cc * y);
    assert(x2 + y2 == c * c * (x + y)) by(nonlinear_arith) requires x2 == cc * x, y2 == cc * y, cc == c * c;
    lemma_sqrt_scale(c, x + y);
    let se = welch_se(x, y);
    let se2 = welch_se(x2, y2);
    assert(se2 == c * se);
    lemma_sqrt_zero(x + y);
    assert(x2 + y2 >= 0real) by(nonlinear_arith) requires x2 == cc * x, y2 == cc * y, cc > 0real, x >= 0real, y >= 0real;
    lemma_sqrt_zero(x2 + y2);
    assert((x + y == 0real) <==> (x2 + y2 == 0real)) by(nonlinear_arith) requires x2 == cc * x, y2 == cc * y, cc > 0real, x >= 0real, y >= 0real;
    if x + y > 0real { lemma_welch_dof_scale(x, na, y, nb, cc); }
    assert(welch_dof_used(x2, na, y2, nb) == welch_dof_used(x, na, y, nb));
    let k = crit(cf, welch_dof_used(x, na, y, nb));
    let (ma, mb) = (mean_of(sa, na), mean_of(sb, nb));
    assert(rmul(k, c * se) == c * rmul(k, se)) by(nonlinear_arith);
    let ks = rmul(k, se);
    assert(((c * ma + d) - (c * mb + d)) - c * ks == c * ((ma - mb) - ks)) by(nonlinear_arith);
    assert(((c * ma + d) - (c * mb + d)) + c * ks == c * ((ma - mb) + ks)) by(nonlinear_arith);
}
