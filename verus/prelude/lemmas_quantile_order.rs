// ===== C03 "the result does not depend on the order in which the data are supplied" =====
// For an element type whose comparison is a total order in which Equal means identical, the ascending arrangement of a
// multiset is unique; two inputs that are permutations of each other therefore lead every copy-and-sort entry point to
// the same ascending sample, hence (by the entry points' contracts) to the same order statistics.
pub open spec fn total_le<T: PartialOrd>() -> bool {
    &&& forall|a: T, b: T| #[trigger] le(a, b) || le(b, a)
    &&& forall|a: T, b: T| #[trigger] le(a, b) && le(b, a) ==> a == b
    &&& forall|a: T, b: T, c: T| #[trigger] le(a, b) && #[trigger] le(b, c) ==> le(a, c)
}
pub proof fn lemma_ascending_is_sorted_by<T: PartialOrd>(s: Seq<T>)
    requires ascending(s), forall|a: T| #[trigger] le(a, a),
    ensures vstd::relations::sorted_by(s, |a: T, b: T| le(a, b)),
{
    let leq = |a: T, b: T| le(a, b);
    assert forall|i: int, j: int| 0 <= i <= j < s.len() implies #[trigger] leq(s[i], s[j]) by { if i < j { assert(le(s[i], s[j])); } }
}
pub proof fn lemma_sorted_sample_unique<T: PartialOrd>(s1: Seq<T>, d1: Seq<T>, s2: Seq<T>, d2: Seq<T>)
    requires total_le::<T>(), sorted_sample(s1, d1), sorted_sample(s2, d2), d1.to_multiset() == d2.to_multiset(),
    ensures s1 == s2,
{
    let leq = |a: T, b: T| le(a, b);
    assert forall|a: T| #[trigger] le(a, a) by { assert(le(a, a) || le(a, a)); }
    lemma_ascending_is_sorted_by(s1);
    lemma_ascending_is_sorted_by(s2);
    assert(vstd::relations::total_ordering(leq)) by {
        assert(vstd::relations::reflexive(leq));
        assert(vstd::relations::antisymmetric(leq));
        assert(vstd::relations::transitive(leq));
        assert(vstd::relations::strongly_connected(leq));
    }
    vstd::seq_lib::lemma_sorted_unique(s1, s2, leq);
}
// ... so every copy-and-sort entry point, given a permutation of the data, answers for the same ascending sample
pub proof fn lemma_quantile_ci_order_independent<T: PartialOrd + Clone>(confidence: Confidence, quantile: R, d1: Seq<T>, d2: Seq<T>, r1: CIResult<Interval<T>>, r2: CIResult<Interval<T>>)
    requires total_le::<T>(), d1.to_multiset() == d2.to_multiset(),
             exists|s: Seq<T>| #[trigger] sorted_sample(s, d1) && quantile_ci_of(confidence, s, quantile, r1),
             exists|s: Seq<T>| #[trigger] sorted_sample(s, d2) && quantile_ci_of(confidence, s, quantile, r2),
    ensures exists|s: Seq<T>| #[trigger] sorted_sample(s, d1) && sorted_sample(s, d2) && quantile_ci_of(confidence, s, quantile, r1) && quantile_ci_of(confidence, s, quantile, r2),
{
    let s1 = choose|s: Seq<T>| #[trigger] sorted_sample(s, d1) && quantile_ci_of(confidence, s, quantile, r1);
    let s2 = choose|s: Seq<T>| #[trigger] sorted_sample(s, d2) && quantile_ci_of(confidence, s, quantile, r2);
    lemma_sorted_sample_unique(s1, d1, s2, d2);
    assert(sorted_sample(s1, d1) && sorted_sample(s1, d2));
}
