// ===== proportion::ci_wilson under contract (shared by the units `proportion` and `quantile`) =====
//@freefn src/proportion.rs ci_wilson ret r vis pub
//@| requires conf_valid(confidence),
//@| ensures r == wilson_spec(confidence, population, successes),
