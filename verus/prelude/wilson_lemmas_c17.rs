// ===== Wilson lemmas needed only by C17 (monotone in k, midpoint, narrower with n) =====
pub proof fn lemma_lo_monotone(n: real, k: real, z: real)
    requires n > 0real, 0real <= k, k + 1real <= n, z >= 0real
    ensures w_lo(n,k,z) < w_lo(n,k+1real,z)
{
    let k1 = k + 1real;
    lemma_basic(n,k,z); lemma_basic(n,k1,z);
    lemma_phat_between(n,k,z); lemma_phat_between(n,k1,z); lemma_order(n,k1,z);
    let p = w_lo(n,k,z); let d = wd(n,z);
    lemma_factor(n,k,z,p);
    assert(wg(n,k,z,p) == 0real) by(nonlinear_arith) requires wg(n,k,z,p) == d * ((p - p) * (p - w_hi(n,k,z)));
    // G(k+1,p) - G(k,p) = -2p + (k1/n)*k1 - (k/n)*k
    let kk = k/n; let kk1 = k1/n;
    assert(kk*n == k) by(nonlinear_arith) requires kk == k/n, n > 0real;
    assert(kk1*n == k1) by(nonlinear_arith) requires kk1 == k1/n, n > 0real;
    assert(wg(n,k1,z,p) - wg(n,k,z,p) == kk1*k1 - kk*k - 2real*p) by(nonlinear_arith)
        requires wg(n,k1,z,p) == d*(p*p) - (2real*k1 + z*z)*p + kk1*k1, wg(n,k,z,p) == d*(p*p) - (2real*k + z*z)*p + kk*k, k1 == k + 1real;
    // kk1*k1 - kk*k >= 2 kk + (something positive): (k+1)^2/n - k^2/n = (2k+1)/n = 2kk + 1/n
    let inv = 1real/n;
    assert(inv * n == 1real) by(nonlinear_arith) requires inv == 1real/n, n > 0real;
    assert(inv > 0real) by(nonlinear_arith) requires inv*n == 1real, n > 0real;
    assert(kk1 == kk + inv) by(nonlinear_arith) requires kk1*n == k1, kk*n == k, inv*n == 1real, k1 == k + 1real, n > 0real;
    assert(kk1*k1 - kk*k == 2real*kk + inv) by(nonlinear_arith) requires kk1 == kk + inv, k1 == k + 1real, kk*n == k, inv*n == 1real, n > 0real;
    assert(p <= kk);
    assert(wg(n,k1,z,p) > 0real);
    lemma_factor(n,k1,z,p);
    lemma_quad_outside(d, w_lo(n,k1,z), w_hi(n,k1,z), p);
    // p <= kk < kk1 <= w_hi(k1)  hence not p > w_hi(k1)
    assert(kk < kk1);
}

// ---- score equation form:  G(k,p) = n (p - k/n)^2 - z^2 p (1-p) ----
pub proof fn lemma_hi_monotone(n: real, k: real, z: real)
    requires n > 0real, 0real <= k, k + 1real <= n, z >= 0real
    ensures w_hi(n,k,z) < w_hi(n,k+1real,z)
{
    let j = n - (k + 1real);
    lemma_lo_monotone(n, j, z);
    lemma_mirror(n, k, z); lemma_mirror(n, k + 1real, z);
    assert(n - k == j + 1real);
}

// ---- midpoint is a convex combination of k/n and 1/2 ----
pub proof fn lemma_midpoint(n: real, k: real, z: real)
    requires n > 0real
    ensures (w_lo(n,k,z) + w_hi(n,k,z)) / 2real == (n*(k/n) + (z*z)*0.5real) / (n + z*z)
{
    assert(z*z >= 0real) by(nonlinear_arith);
    let kk = k/n;
    assert(kk*n == k) by(nonlinear_arith) requires kk == k/n, n > 0real;
}

// ---- narrower with n at a fixed observed proportion ----
pub proof fn lemma_sq_lt(x: real, y: real)
    requires x >= 0real, y >= 0real, x*x < y*y
    ensures x < y
{
    assert(!(x >= y)) by(nonlinear_arith) requires x >= 0real, y >= 0real, x*x < y*y;
}
pub proof fn lemma_span_sq(n: real, k: real, z: real)
    requires n > 0real, 0real <= k <= n, z >= 0real
    ensures
        w_span(n,k,z) >= 0real,
        (w_span(n,k,z) * w_span(n,k,z)) * (wd(n,z) * wd(n,z)) == (z*z) * wrad(n,k,z),
{
    broadcast use ax_sqrt_plain;
    lemma_basic(n,k,z);
    let d = wd(n,z); let s = sqrt_spec(wrad(n,k,z)); let zd = z/d; let sp = zd*s; let s2 = s*s;
    assert(zd*d == z) by(nonlinear_arith) requires zd == z/d, d > 0real;
    assert(zd >= 0real) by(nonlinear_arith) requires zd*d == z, d > 0real, z >= 0real;
    assert(sp >= 0real) by(nonlinear_arith) requires sp == zd*s, zd >= 0real, s >= 0real;
    let spd = sp*d;
    assert(spd == (zd*d)*s) by(nonlinear_arith) requires spd == sp*d, sp == zd*s;
    assert(spd == z*s);
    assert(spd*spd == (z*z)*s2) by(nonlinear_arith) requires spd == z*s, s2 == s*s;
    assert((sp*sp)*(d*d) == spd*spd) by(nonlinear_arith) requires spd == sp*d;
}
pub proof fn lemma_narrower(n: real, k: real, z: real, m: real)
    requires n > 0real, 0real < k < n, z > 0real, m > 1real
    ensures w_hi(m*n, m*k, z) - w_lo(m*n, m*k, z) < w_hi(n,k,z) - w_lo(n,k,z)
{
    let n2 = m*n; let k2 = m*k;
    assert(n2 > 0real) by(nonlinear_arith) requires n2 == m*n, m > 1real, n > 0real;
    assert(0real < k2 < n2) by(nonlinear_arith) requires k2 == m*k, n2 == m*n, m > 1real, 0real < k < n;
    lemma_basic(n,k,z); lemma_basic(n2,k2,z);
    lemma_span_sq(n,k,z); lemma_span_sq(n2,k2,z);
    let zz = z*z; let w = zz/4real;
    assert(zz > 0real) by(nonlinear_arith) requires zz == z*z, z > 0real;
    let a = k*(n-k)/n;          // rad1 = a + w
    let kk = k/n;
    assert(kk*n == k) by(nonlinear_arith) requires kk == k/n, n > 0real;
    assert(a == kk*(n-k)) by(nonlinear_arith) requires a == k*(n-k)/n, kk == k/n, n > 0real;
    assert(kk > 0real) by(nonlinear_arith) requires kk*n == k, n > 0real, k > 0real;
    assert(a > 0real) by(nonlinear_arith) requires a == kk*(n-k), kk > 0real, n - k > 0real;
    // rad2 = m*a + w
    let kk2 = k2/n2;
    assert(kk2*n2 == k2) by(nonlinear_arith) requires kk2 == k2/n2, n2 > 0real;
    assert(kk2 == kk) by(nonlinear_arith) requires kk2*n2 == k2, kk*n == k, n2 == m*n, k2 == m*k, m > 1real, n > 0real;
    let a2 = k2*(n2-k2)/n2;
    assert(a2 == kk2*(n2-k2)) by(nonlinear_arith) requires a2 == k2*(n2-k2)/n2, kk2 == k2/n2, n2 > 0real;
    assert(n2 - k2 == m*(n-k)) by(nonlinear_arith) requires n2 == m*n, k2 == m*k;
    assert(a2 == m*a) by(nonlinear_arith) requires a2 == kk*(n2-k2), n2 - k2 == m*(n-k), a == kk*(n-k);
    let r1 = wrad(n,k,z); let r2 = wrad(n2,k2,z);
    assert(r1 == a + w && r2 == m*a + w);
    // a <= n/4  via  n*n - 4 k (n-k) = (n-2k)^2 >= 0
    let ak = a*n;
    assert(ak == k*(n-k)) by(nonlinear_arith) requires ak == a*n, a == kk*(n-k), kk*n == k;
    let e = n - 2real*k;
    assert(e*e >= 0real) by(nonlinear_arith);
    assert(n*n - 4real*(k*(n-k)) == e*e) by(nonlinear_arith) requires e == n - 2real*k;
    assert(4real*ak <= n*n);
    assert(4real*a <= n) by(nonlinear_arith) requires 4real*ak <= n*n, ak == a*n, n > 0real;
    // main inequality: r2 * d1^2 < r1 * d2^2
    let d1 = n + zz; let d2 = n2 + zz;
    assert(d1 == wd(n,z) && d2 == wd(n2,z));
    let g = m - 1real;
    let mn = m*n; let nn = n*n; let z4 = zz*zz;
    let br = a*(m*nn) - a*z4 + w*(nn*(m + 1real)) + 2real*(w*(n*zz));
    // r1*d2^2 - r2*d1^2 == g * br
    let d1s = d1*d1; let d2s = d2*d2;
    assert(d1s == nn + 2real*(n*zz) + z4) by(nonlinear_arith) requires d1s == d1*d1, d1 == n + zz, nn == n*n, z4 == zz*zz;
    assert(d2s == (m*m)*nn + 2real*(m*(n*zz)) + z4) by(nonlinear_arith) requires d2s == d2*d2, d2 == n2 + zz, n2 == m*n, nn == n*n, z4 == zz*zz;
    let x1 = n*zz;
    let lhs = (a + w)*d2s; let rhs = (m*a + w)*d1s;
    let mm = m*m;
    let m1 = a*(mm*nn); let m2 = a*(m*nn); let m3 = (m*a)*z4; let m4 = a*z4;
    let m5 = w*(mm*nn); let m6 = w*nn; let m7 = w*(m*x1); let m8 = w*x1; let m9 = a*(m*x1);
    let m10 = w*z4; let m11 = w*(m*nn);
    let t2 = mm*nn; let t3 = m*x1;
    assert(d2s == t2 + 2real*t3 + z4);
    assert(lhs == a*t2 + 2real*(a*t3) + a*z4 + w*t2 + 2real*(w*t3) + w*z4) by(nonlinear_arith)
        requires lhs == (a + w)*d2s, d2s == t2 + 2real*t3 + z4;
    assert(lhs == m1 + 2real*m9 + m4 + m5 + 2real*m7 + m10);
    let ma = m*a;
    assert(rhs == ma*nn + 2real*(ma*x1) + ma*z4 + w*nn + 2real*(w*x1) + w*z4) by(nonlinear_arith)
        requires rhs == (ma + w)*d1s, d1s == nn + 2real*x1 + z4;
    assert(ma*nn == m2) by(nonlinear_arith) requires ma == m*a, m2 == a*(m*nn);
    assert(ma*x1 == m9) by(nonlinear_arith) requires ma == m*a, m9 == a*(m*x1);
    assert(rhs == m2 + 2real*m9 + m3 + m6 + 2real*m8 + m10);
    // g*br, term by term
    let b3 = w*(nn*(m + 1real));
    assert(b3 == m11 + m6) by(nonlinear_arith) requires b3 == w*(nn*(m + 1real)), m11 == w*(m*nn), m6 == w*nn;
    assert(br == m2 - m4 + b3 + 2real*m8);
    assert(m*m2 == m1) by(nonlinear_arith) requires m2 == a*(m*nn), m1 == a*(mm*nn), mm == m*m;
    assert(m*m4 == m3) by(nonlinear_arith) requires m4 == a*z4, m3 == (m*a)*z4;
    assert(m*m11 == m5) by(nonlinear_arith) requires m11 == w*(m*nn), m5 == w*(mm*nn), mm == m*m;
    assert(m*m6 == m11) by(nonlinear_arith) requires m6 == w*nn, m11 == w*(m*nn);
    assert(m*m8 == m7) by(nonlinear_arith) requires m8 == w*x1, m7 == w*(m*x1);
    let s4 = m2 - m4 + m11 + m6 + 2real*m8;
    assert(br == s4);
    assert(g*s4 == m*m2 - m*m4 + m*m11 + m*m6 + 2real*(m*m8) - s4) by(nonlinear_arith)
        requires g == m - 1real, s4 == m2 - m4 + m11 + m6 + 2real*m8;
    assert(lhs - rhs == g*br);
    // br > 0
    assert(a*z4 <= w*x1) by(nonlinear_arith) requires 4real*a <= n, w == zz/4real, x1 == n*zz, z4 == zz*zz, zz > 0real;
    assert(a*(m*nn) > 0real) by(nonlinear_arith) requires a > 0real, m > 1real, nn == n*n, n > 0real;
    assert(w > 0real);
    assert(w*(nn*(m + 1real)) > 0real) by(nonlinear_arith) requires w > 0real, nn == n*n, n > 0real, m > 1real;
    assert(w*x1 > 0real) by(nonlinear_arith) requires w > 0real, x1 == n*zz, n > 0real, zz > 0real;
    assert(br > 0real);
    assert(g*br > 0real) by(nonlinear_arith) requires g > 0real, br > 0real;
    assert(rhs < lhs);
    // spans
    let sp1 = w_span(n,k,z); let sp2 = w_span(n2,k2,z);
    let q1 = sp1*sp1; let q2 = sp2*sp2;
    assert(q1*d1s == zz*r1);
    assert(q2*d2s == zz*r2);
    // q2 * d2s * d1s = zz * r2 * d1s < zz * r1 * d2s = q1 * d1s * d2s
    assert(zz*rhs < zz*lhs) by(nonlinear_arith) requires rhs < lhs, zz > 0real;
    assert((q2*d2s)*d1s == zz*rhs) by(nonlinear_arith) requires q2*d2s == zz*r2, rhs == r2*d1s;
    assert((q1*d1s)*d2s == zz*lhs) by(nonlinear_arith) requires q1*d1s == zz*r1, lhs == r1*d2s;
    let dd = d1s*d2s;
    assert(dd > 0real) by(nonlinear_arith) requires dd == d1s*d2s, d1s == d1*d1, d2s == d2*d2, d1 > 0real, d2 > 0real;
    assert(q2*dd == (q2*d2s)*d1s) by(nonlinear_arith) requires dd == d1s*d2s;
    assert(q1*dd == (q1*d1s)*d2s) by(nonlinear_arith) requires dd == d1s*d2s;
    assert(q2 < q1) by(nonlinear_arith) requires q2*dd < q1*dd, dd > 0real;
    lemma_sq_lt(sp2, sp1);
}

