// ranks are monotone in the proportion, so nesting of the Wilson bounds carries over to the ranks
pub proof fn lemma_rank_monotone(n: usize, p1: real, p2: real)
    requires n >= 1, 0real <= p1 <= p2,
    ensures rank_of(n, p1) <= rank_of(n, p2),
{
    let nr = n as real;
    assert(p1 * nr <= p2 * nr) by(nonlinear_arith) requires p1 <= p2, nr >= 1real;
    assert(p1 * nr >= 0real) by(nonlinear_arith) requires p1 >= 0real, nr >= 1real;
    assert(rmul(p1, nr) == p1 * nr && rmul(p2, nr) == p2 * nr);
    lemma_floor_mono(p1 * nr, p2 * nr);
    lemma_floor_mono(0real, p1 * nr);
    lemma_floor_int(0int);
}
pub proof fn lemma_quantile_ci_coherent(a: Confidence, b: Confidence, n: usize, k: usize)
    requires same_kind(a, b), conf_valid(a), conf_valid(b), conf_level(a) <= conf_level(b), n >= 4, 2 <= k, k + 2 <= n,
    ensures ({
        let (nr, kr) = (n as real, k as real);
        rank_of(n, w_lo(nr, kr, z_of(b))) <= rank_of(n, w_lo(nr, kr, z_of(a))) && rank_of(n, w_hi(nr, kr, z_of(a))) <= rank_of(n, w_hi(nr, kr, z_of(b)))
    }),
{
    let (nr, kr) = (n as real, k as real);
    lemma_wilson_ci_coherent(a, b, n, k);
    lemma_wilson_bounds_any_z(nr, kr, z_of(a));
    lemma_wilson_bounds_any_z(nr, kr, z_of(b));
    lemma_rank_monotone(n, w_lo(nr, kr, z_of(b)), w_lo(nr, kr, z_of(a)));
    lemma_rank_monotone(n, w_hi(nr, kr, z_of(a)), w_hi(nr, kr, z_of(b)));
}
