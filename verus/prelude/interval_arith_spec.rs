// ===== C13: interval arithmetic over the reals, written from the property (sets and their images, not the code's arm tables) =====
pub open spec fn lo_of(i: Interval<R>) -> Option<real> {
    match i { Interval::TwoSided(l, _) => Some(l.v()), Interval::UpperOneSided(l) => Some(l.v()), Interval::LowerOneSided(_) => None }
}
pub open spec fn hi_of(i: Interval<R>) -> Option<real> {
    match i { Interval::TwoSided(_, h) => Some(h.v()), Interval::LowerOneSided(h) => Some(h.v()), Interval::UpperOneSided(_) => None }
}
// the closed set an interval denotes
pub open spec fn mem(i: Interval<R>, x: real) -> bool {
    (lo_of(i) is Some ==> lo_of(i)->Some_0 <= x) && (hi_of(i) is Some ==> x <= hi_of(i)->Some_0)
}
pub open spec fn wf_r(i: Interval<R>) -> bool { match i { Interval::TwoSided(l, h) => l.v() <= h.v(), _ => true } }
// the interval with the given optional end points (None = unbounded on that side); the whole line is not representable
pub open spec fn mk(lo: Option<real>, hi: Option<real>) -> Interval<R> {
    match (lo, hi) {
        (Some(l), Some(h)) => Interval::TwoSided(r_of(l), r_of(h)),
        (Some(l), None) => Interval::UpperOneSided(r_of(l)),
        (None, Some(h)) => Interval::LowerOneSided(r_of(h)),
        (None, None) => arbitrary(),
    }
}
pub open spec fn omap(o: Option<real>, g: spec_fn(real) -> real) -> Option<real> { match o { Some(x) => Some(g(x)), None => None } }
// image of an interval under an increasing / a decreasing / a constant map of the reals
pub open spec fn img_inc(i: Interval<R>, g: spec_fn(real) -> real) -> Interval<R> { mk(omap(lo_of(i), g), omap(hi_of(i), g)) }
pub open spec fn img_dec(i: Interval<R>, g: spec_fn(real) -> real) -> Interval<R> { mk(omap(hi_of(i), g), omap(lo_of(i), g)) }
pub open spec fn point(c: real) -> Interval<R> { Interval::TwoSided(r_of(c), r_of(c)) }

pub open spec fn add_k(i: Interval<R>, k: real) -> Interval<R> { img_inc(i, |x: real| x + k) }
pub open spec fn sub_k(i: Interval<R>, k: real) -> Interval<R> { img_inc(i, |x: real| x - k) }
pub open spec fn neg_i(i: Interval<R>) -> Interval<R> { img_dec(i, |x: real| -x) }
pub open spec fn mul_k(i: Interval<R>, k: real) -> Interval<R> {
    if k > 0real { img_inc(i, |x: real| rmul(x, k)) } else if k < 0real { img_dec(i, |x: real| rmul(x, k)) } else { point(0real) }
}
// k != 0
pub open spec fn div_k(i: Interval<R>, k: real) -> Interval<R> {
    if k > 0real { img_inc(i, |x: real| rdiv(x, k)) } else { img_dec(i, |x: real| rdiv(x, k)) }
}
pub open spec fn oadd(a: Option<real>, b: Option<real>) -> Option<real> { match (a, b) { (Some(x), Some(y)) => Some(x + y), _ => None } }
pub open spec fn osub(a: Option<real>, b: Option<real>) -> Option<real> { match (a, b) { (Some(x), Some(y)) => Some(x - y), _ => None } }
// A + B = { x + y }: bounded below iff both are, by the sum of the lower bounds; likewise above
pub open spec fn add_ii(a: Interval<R>, b: Interval<R>) -> Interval<R> { mk(oadd(lo_of(a), lo_of(b)), oadd(hi_of(a), hi_of(b))) }
pub open spec fn add_ii_defined(a: Interval<R>, b: Interval<R>) -> bool { oadd(lo_of(a), lo_of(b)) is Some || oadd(hi_of(a), hi_of(b)) is Some }
// A - B = { x - y }: bounded below iff A is bounded below and B above
pub open spec fn sub_ii(a: Interval<R>, b: Interval<R>) -> Interval<R> { mk(osub(lo_of(a), hi_of(b)), osub(hi_of(a), lo_of(b))) }
pub open spec fn sub_ii_defined(a: Interval<R>, b: Interval<R>) -> bool { osub(lo_of(a), hi_of(b)) is Some || osub(hi_of(a), lo_of(b)) is Some }
// relative_to: (x - r) / r is increasing in x and, for x >= 0 and r > 0, decreasing in r
pub open spec fn rel(x: real, r: real) -> real { rdiv(x - r, r) }
pub open spec fn orel(a: Option<real>, b: Option<real>) -> Option<real> { match (a, b) { (Some(x), Some(r)) => Some(rel(x, r)), _ => None } }
pub open spec fn rel_ii(s: Interval<R>, r: Interval<R>) -> Interval<R> { mk(orel(lo_of(s), hi_of(r)), orel(hi_of(s), lo_of(r))) }
// domain of the property: members of `s` are non-negative, members of `r` strictly positive, and some bound of the result exists
pub open spec fn rel_domain(s: Interval<R>, r: Interval<R>) -> bool {
    &&& wf_r(s) && wf_r(r)
    &&& lo_of(s) is Some && lo_of(s)->Some_0 >= 0real
    &&& lo_of(r) is Some && lo_of(r)->Some_0 > 0real
    &&& (hi_of(s) is Some || hi_of(r) is Some)
}
