// ===== prelude: the ideal-real number type R and the mathematical spec functions (trusted base, DESIGN 4.2 / 9) =====
// R stands for f32/f64 with exact real arithmetic.  Every operation below is `external_body` with the
// real-number meaning as its contract: this is the assumption "machine arithmetic treated as mathematical".
#[verifier::external_body]
#[derive(Clone, Copy)]
pub struct R { x: f64 }

impl R { pub uninterp spec fn v(self) -> real; }

pub uninterp spec fn r_of(x: real) -> R;
pub broadcast axiom fn ax_r_of(x: real) ensures #[trigger] r_of(x).v() == x;
pub broadcast axiom fn ax_r_ext(a: R) ensures #[trigger] r_of(a.v()) == a;

pub open spec fn rmul(a: real, b: real) -> real { a * b }
pub broadcast proof fn lemma_sq_nonneg(x: real) ensures #[trigger] rmul(x, x) >= 0real { assert(x*x >= 0real) by(nonlinear_arith); }

pub broadcast proof fn lemma_rmul_nonneg(a: real, b: real) ensures a >= 0real && b >= 0real ==> #[trigger] rmul(a, b) >= 0real { if a >= 0real && b >= 0real { assert(a * b >= 0real) by(nonlinear_arith) requires a >= 0real, b >= 0real; } }
pub broadcast proof fn lemma_rdiv_nonneg(a: real, b: real) ensures a >= 0real && b > 0real ==> #[trigger] rdiv(a, b) >= 0real { if a >= 0real && b > 0real { assert(a / b >= 0real) by(nonlinear_arith) requires a >= 0real, b > 0real; } }
impl Add for R {
    type Output = R;
    #[verifier::external_body]
    fn add(self, rhs: R) -> (r: R) { R { x: self.x + rhs.x } }
}
impl AddSpecImpl for R {
    open spec fn obeys_add_spec() -> bool { true }
    open spec fn add_req(self, rhs: R) -> bool { true }
    open spec fn add_spec(self, rhs: R) -> R { r_of(self.v() + rhs.v()) }
}
impl Sub for R {
    type Output = R;
    #[verifier::external_body]
    fn sub(self, rhs: R) -> (r: R) { R { x: self.x - rhs.x } }
}
impl SubSpecImpl for R {
    open spec fn obeys_sub_spec() -> bool { true }
    open spec fn sub_req(self, rhs: R) -> bool { true }
    open spec fn sub_spec(self, rhs: R) -> R { r_of(self.v() - rhs.v()) }
}
impl Mul for R {
    type Output = R;
    #[verifier::external_body]
    fn mul(self, rhs: R) -> (r: R) { R { x: self.x * rhs.x } }
}
impl MulSpecImpl for R {
    open spec fn obeys_mul_spec() -> bool { true }
    open spec fn mul_req(self, rhs: R) -> bool { true }
    open spec fn mul_spec(self, rhs: R) -> R { r_of(rmul(self.v(), rhs.v())) }
}
impl Div for R {
    type Output = R;
    #[verifier::external_body]
    fn div(self, rhs: R) -> (r: R) { R { x: self.x / rhs.x } }
}
// a / 0 is some unspecified value (IEEE: inf or NaN); the code under contract must not depend on it
pub uninterp spec fn div0(a: real) -> real;
pub open spec fn rdiv(a: real, b: real) -> real { if b != 0real { a / b } else { div0(a) } }
impl DivSpecImpl for R {
    open spec fn obeys_div_spec() -> bool { true }
    open spec fn div_req(self, rhs: R) -> bool { true }
    open spec fn div_spec(self, rhs: R) -> R { r_of(rdiv(self.v(), rhs.v())) }
}
// reference operand forms the std float types also offer (f64 op &f64, &f64 op f64, &f64 op &f64)
impl<'a> Add<&'a R> for R {
    type Output = R;
    #[verifier::external_body]
    fn add(self, rhs: &'a R) -> (r: R) { R { x: self.x + rhs.x } }
}
impl<'a> AddSpecImpl<&'a R> for R {
    open spec fn obeys_add_spec() -> bool { true }
    open spec fn add_req(self, rhs: &'a R) -> bool { true }
    open spec fn add_spec(self, rhs: &'a R) -> R { r_of(self.v() + rhs.v()) }
}
impl<'a> Add<R> for &'a R {
    type Output = R;
    #[verifier::external_body]
    fn add(self, rhs: R) -> (r: R) { R { x: self.x + rhs.x } }
}
impl<'a> AddSpecImpl<R> for &'a R {
    open spec fn obeys_add_spec() -> bool { true }
    open spec fn add_req(self, rhs: R) -> bool { true }
    open spec fn add_spec(self, rhs: R) -> R { r_of(self.v() + rhs.v()) }
}
impl<'a> Add<&'a R> for &'a R {
    type Output = R;
    #[verifier::external_body]
    fn add(self, rhs: &'a R) -> (r: R) { R { x: self.x + rhs.x } }
}
impl<'a> AddSpecImpl<&'a R> for &'a R {
    open spec fn obeys_add_spec() -> bool { true }
    open spec fn add_req(self, rhs: &'a R) -> bool { true }
    open spec fn add_spec(self, rhs: &'a R) -> R { r_of(self.v() + rhs.v()) }
}
impl<'a> Sub<&'a R> for R {
    type Output = R;
    #[verifier::external_body]
    fn sub(self, rhs: &'a R) -> (r: R) { R { x: self.x - rhs.x } }
}
impl<'a> SubSpecImpl<&'a R> for R {
    open spec fn obeys_sub_spec() -> bool { true }
    open spec fn sub_req(self, rhs: &'a R) -> bool { true }
    open spec fn sub_spec(self, rhs: &'a R) -> R { r_of(self.v() - rhs.v()) }
}
impl<'a> Sub<R> for &'a R {
    type Output = R;
    #[verifier::external_body]
    fn sub(self, rhs: R) -> (r: R) { R { x: self.x - rhs.x } }
}
impl<'a> SubSpecImpl<R> for &'a R {
    open spec fn obeys_sub_spec() -> bool { true }
    open spec fn sub_req(self, rhs: R) -> bool { true }
    open spec fn sub_spec(self, rhs: R) -> R { r_of(self.v() - rhs.v()) }
}
impl<'a> Sub<&'a R> for &'a R {
    type Output = R;
    #[verifier::external_body]
    fn sub(self, rhs: &'a R) -> (r: R) { R { x: self.x - rhs.x } }
}
impl<'a> SubSpecImpl<&'a R> for &'a R {
    open spec fn obeys_sub_spec() -> bool { true }
    open spec fn sub_req(self, rhs: &'a R) -> bool { true }
    open spec fn sub_spec(self, rhs: &'a R) -> R { r_of(self.v() - rhs.v()) }
}
impl<'a> Mul<&'a R> for R {
    type Output = R;
    #[verifier::external_body]
    fn mul(self, rhs: &'a R) -> (r: R) { R { x: self.x * rhs.x } }
}
impl<'a> MulSpecImpl<&'a R> for R {
    open spec fn obeys_mul_spec() -> bool { true }
    open spec fn mul_req(self, rhs: &'a R) -> bool { true }
    open spec fn mul_spec(self, rhs: &'a R) -> R { r_of(rmul(self.v(), rhs.v())) }
}
impl<'a> Mul<R> for &'a R {
    type Output = R;
    #[verifier::external_body]
    fn mul(self, rhs: R) -> (r: R) { R { x: self.x * rhs.x } }
}
impl<'a> MulSpecImpl<R> for &'a R {
    open spec fn obeys_mul_spec() -> bool { true }
    open spec fn mul_req(self, rhs: R) -> bool { true }
    open spec fn mul_spec(self, rhs: R) -> R { r_of(rmul(self.v(), rhs.v())) }
}
impl<'a> Mul<&'a R> for &'a R {
    type Output = R;
    #[verifier::external_body]
    fn mul(self, rhs: &'a R) -> (r: R) { R { x: self.x * rhs.x } }
}
impl<'a> MulSpecImpl<&'a R> for &'a R {
    open spec fn obeys_mul_spec() -> bool { true }
    open spec fn mul_req(self, rhs: &'a R) -> bool { true }
    open spec fn mul_spec(self, rhs: &'a R) -> R { r_of(rmul(self.v(), rhs.v())) }
}
impl<'a> Div<&'a R> for R {
    type Output = R;
    #[verifier::external_body]
    fn div(self, rhs: &'a R) -> (r: R) { R { x: self.x / rhs.x } }
}
impl<'a> DivSpecImpl<&'a R> for R {
    open spec fn obeys_div_spec() -> bool { true }
    open spec fn div_req(self, rhs: &'a R) -> bool { true }
    open spec fn div_spec(self, rhs: &'a R) -> R { r_of(rdiv(self.v(), rhs.v())) }
}
impl<'a> Div<R> for &'a R {
    type Output = R;
    #[verifier::external_body]
    fn div(self, rhs: R) -> (r: R) { R { x: self.x / rhs.x } }
}
impl<'a> DivSpecImpl<R> for &'a R {
    open spec fn obeys_div_spec() -> bool { true }
    open spec fn div_req(self, rhs: R) -> bool { true }
    open spec fn div_spec(self, rhs: R) -> R { r_of(rdiv(self.v(), rhs.v())) }
}
impl<'a> Div<&'a R> for &'a R {
    type Output = R;
    #[verifier::external_body]
    fn div(self, rhs: &'a R) -> (r: R) { R { x: self.x / rhs.x } }
}
impl<'a> DivSpecImpl<&'a R> for &'a R {
    open spec fn obeys_div_spec() -> bool { true }
    open spec fn div_req(self, rhs: &'a R) -> bool { true }
    open spec fn div_spec(self, rhs: &'a R) -> R { r_of(rdiv(self.v(), rhs.v())) }
}
impl Neg for R {
    type Output = R;
    #[verifier::external_body]
    fn neg(self) -> (r: R) { R { x: -self.x } }
}
impl NegSpecImpl for R {
    open spec fn obeys_neg_spec() -> bool { true }
    open spec fn neg_req(self) -> bool { true }
    open spec fn neg_spec(self) -> R { r_of(-self.v()) }
}
impl PartialEq for R {
    #[verifier::external_body]
    fn eq(&self, other: &R) -> (r: bool) { self.x == other.x }
}
impl PartialEqSpecImpl for R {
    open spec fn obeys_eq_spec() -> bool { true }
    open spec fn eq_spec(&self, other: &R) -> bool { self.v() == other.v() }
}
impl PartialOrd for R {
    #[verifier::external_body]
    fn partial_cmp(&self, other: &R) -> (r: Option<Ordering>) { self.x.partial_cmp(&other.x) }
}
impl PartialOrdSpecImpl for R {
    open spec fn obeys_partial_cmp_spec() -> bool { true }
    open spec fn partial_cmp_spec(&self, other: &R) -> Option<Ordering> {
        if self.v() < other.v() { Some(Ordering::Less) } else if self.v() == other.v() { Some(Ordering::Equal) } else { Some(Ordering::Greater) }
    }
}

// ---- mathematical functions: uninterpreted, constrained only by true mathematics
pub uninterp spec fn sqrt_spec(a: real) -> real;
pub broadcast axiom fn ax_sqrt(x: real) requires x >= 0real ensures #[trigger] sqrt_spec(x) >= 0real, rmul(sqrt_spec(x), sqrt_spec(x)) == x;
pub broadcast proof fn lemma_sqrt_pos(x: real) ensures x > 0real ==> #[trigger] sqrt_spec(x) > 0real {
    if x > 0real {
        ax_sqrt(x);
        let r = sqrt_spec(x);
        if r == 0real { assert(r * r == 0real) by(nonlinear_arith) requires r == 0real; assert(rmul(r, r) == r * r); }
    }
}
pub uninterp spec fn ln_spec(a: real) -> real;
pub uninterp spec fn exp_spec(a: real) -> real;
pub broadcast axiom fn ax_exp_pos(x: real) ensures #[trigger] exp_spec(x) > 0real;
pub broadcast axiom fn ax_exp_ln(x: real) requires x > 0real ensures exp_spec(#[trigger] ln_spec(x)) == x;
pub axiom fn ax_exp_mono(x: real, y: real) requires x <= y ensures exp_spec(x) <= exp_spec(y);
pub axiom fn ax_exp_add(x: real, y: real) ensures exp_spec(x + y) == exp_spec(x) * exp_spec(y);
pub axiom fn ax_ln_mul(x: real, y: real) requires x > 0real, y > 0real ensures ln_spec(x * y) == ln_spec(x) + ln_spec(y);
pub uninterp spec fn powf_spec(a: real, e: real) -> real;
pub uninterp spec fn log10_spec(a: real) -> real;
pub uninterp spec fn log2_spec(a: real) -> real;
pub uninterp spec fn cbrt_spec(a: real) -> real;
pub uninterp spec fn floor_spec(a: real) -> int;
pub broadcast axiom fn ax_floor(x: real) ensures (#[trigger] floor_spec(x)) as real <= x, x < (floor_spec(x) + 1) as real;
pub broadcast proof fn lemma_floor_int(i: int) ensures #[trigger] floor_spec(i as real) == i { ax_floor(i as real); }
pub proof fn lemma_floor_mono(x: real, y: real) requires x <= y ensures floor_spec(x) <= floor_spec(y) { ax_floor(x); ax_floor(y); }
pub open spec fn to_usize_spec(x: int) -> usize { if x <= 0 { 0usize } else if x >= usize::MAX { usize::MAX } else { x as usize } }
// f64::round: half away from zero
pub open spec fn round_spec(x: real) -> int { if x >= 0real { floor_spec(x + 0.5real) } else { -floor_spec(-x + 0.5real) } }

// quantile functions of the standard normal and of Student's t (dof > 0): what statrs is ASSUMED to compute (C06 is not claimed)
pub uninterp spec fn normal_quantile(p: real) -> real;
pub uninterp spec fn t_quantile(p: real, dof: real) -> real;
pub broadcast axiom fn ax_nq_sign(p: real) ensures (p >= 0.5real ==> #[trigger] normal_quantile(p) >= 0real), (p <= 0.5real ==> normal_quantile(p) <= 0real);
pub broadcast axiom fn ax_tq_sign(p: real, dof: real) ensures (p >= 0.5real ==> #[trigger] t_quantile(p, dof) >= 0real), (p <= 0.5real ==> t_quantile(p, dof) <= 0real);
pub axiom fn ax_nq_mono(p: real, q: real) requires 0real < p <= q < 1real ensures normal_quantile(p) <= normal_quantile(q);
pub axiom fn ax_tq_mono(p: real, q: real, dof: real) requires 0real < p <= q < 1real, dof > 0real ensures t_quantile(p, dof) <= t_quantile(q, dof);
pub axiom fn ax_nq_odd(p: real) requires 0real < p < 1real ensures normal_quantile(1real - p) == -normal_quantile(p);
pub axiom fn ax_tq_odd(p: real, dof: real) requires 0real < p < 1real, dof > 0real ensures t_quantile(1real - p, dof) == -t_quantile(p, dof);

// error function and its inverse; the standard-normal quantile in closed form: Phi^-1(p) = sqrt(2) erf^-1(2p - 1)
pub uninterp spec fn erf_spec(x: real) -> real;
pub uninterp spec fn erf_inv_spec(x: real) -> real;
pub broadcast axiom fn ax_nq_erf_inv(x: real) requires -1real < x < 1real ensures rmul(sqrt_spec(2real), #[trigger] erf_inv_spec(x)) == normal_quantile((x + 1real) / 2real);
pub uninterp spec fn epsilon_spec() -> real;
pub broadcast axiom fn ax_epsilon_pos() ensures #[trigger] epsilon_spec() > 0real;
pub trait ToR: Sized { spec fn to_real(self) -> real; }
impl ToR for usize { open spec fn to_real(self) -> real { self as real } }
impl ToR for R { open spec fn to_real(self) -> real { self.v() } }

impl R {
    #[verifier::external_body]
    pub fn lit(num: u64, den: u64) -> (r: R)
        requires den > 0
        ensures r.v() == (num as real) / (den as real)
    { R { x: num as f64 / den as f64 } }
    #[verifier::external_body]
    pub fn from_usize(n: usize) -> (r: R) ensures r.v() == n as real { R { x: n as f64 } }
    // num_traits::NumCast::from: identity on values (f64 <-> f32 <-> usize conversions never fail in the ideal model)
    #[verifier::external_body]
    pub fn from<X: ToR>(n: X) -> (r: Option<R>) ensures r is Some, r->Some_0.v() == n.to_real() { unimplemented!() }
    #[verifier::external_body]
    pub fn to_f64(self) -> (r: Option<R>) ensures r == Some(self) { Some(self) }
    #[verifier::external_body]
    pub fn zero() -> (r: R) ensures r.v() == 0real { R { x: 0.0 } }
    #[verifier::external_body]
    pub fn one() -> (r: R) ensures r.v() == 1real { R { x: 1.0 } }
    #[verifier::external_body]
    pub fn nan() -> (r: R) { R { x: f64::NAN } }
    // +-infinity stand for "no bound on this side": unspecified values in the ideal model
    #[verifier::external_body]
    pub fn infinity() -> (r: R) { R { x: f64::INFINITY } }
    #[verifier::external_body]
    pub fn neg_infinity() -> (r: R) { R { x: f64::NEG_INFINITY } }
    #[verifier::external_body]
    pub fn sqrt(self) -> (r: R) ensures r.v() == sqrt_spec(self.v()) { R { x: self.x.sqrt() } }
    #[verifier::external_body]
    pub fn ln(self) -> (r: R) ensures r.v() == ln_spec(self.v()) { R { x: self.x.ln() } }
    #[verifier::external_body]
    pub fn exp(self) -> (r: R) ensures r.v() == exp_spec(self.v()) { R { x: self.x.exp() } }
    #[verifier::external_body]
    pub fn floor(self) -> (r: R) ensures r.v() == floor_spec(self.v()) as real { R { x: self.x.floor() } }
    // ceil(x) = -floor(-x); trunc: toward zero
    #[verifier::external_body]
    pub fn ceil(self) -> (r: R) ensures r.v() == (-floor_spec(-self.v())) as real { R { x: self.x.ceil() } }
    #[verifier::external_body]
    pub fn trunc(self) -> (r: R) ensures r.v() == (if self.v() >= 0real { floor_spec(self.v()) } else { -floor_spec(-self.v()) }) as real { R { x: self.x.trunc() } }
    #[verifier::external_body]
    pub fn round(self) -> (r: R) ensures r.v() == round_spec(self.v()) as real { R { x: self.x.round() } }
    // `as usize` on a float: truncation toward zero, saturating (NaN does not exist in the ideal model)
    #[verifier::external_body]
    pub fn to_usize(self) -> (r: usize)
        ensures r == to_usize_spec(if self.v() >= 0real { floor_spec(self.v()) } else { 0int }),
    { self.x as usize }
    #[verifier::external_body]
    pub fn is_zero(&self) -> (r: bool) ensures r == (self.v() == 0real) { self.x == 0.0 }
    // every ideal real is finite, none is NaN
    #[verifier::external_body]
    pub fn is_finite(self) -> (r: bool) ensures r { true }
    #[verifier::external_body]
    pub fn is_nan(self) -> (r: bool) ensures !r { false }
    // machine epsilon: some strictly positive constant
    #[verifier::external_body]
    pub fn epsilon() -> (r: R) ensures r.v() == epsilon_spec() { R { x: f64::EPSILON } }
    #[verifier::external_body]
    pub fn abs(self) -> (r: R) ensures r.v() == (if self.v() >= 0real { self.v() } else { -self.v() }) { R { x: self.x.abs() } }
    // sign: +1 / -1; at zero the float types answer by the sign bit, which the ideal model does not have
    #[verifier::external_body]
    pub fn signum(self) -> (r: R) ensures self.v() > 0real ==> r.v() == 1real, self.v() < 0real ==> r.v() == -1real, r.v() == 1real || r.v() == -1real { R { x: self.x.signum() } }
    #[verifier::external_body]
    pub fn recip(self) -> (r: R) ensures r.v() == rdiv(1real, self.v()) { R { x: self.x.recip() } }
    #[verifier::external_body]
    pub fn powi(self, n: i32) -> (r: R) ensures n == 2 ==> r.v() == rmul(self.v(), self.v()), n == 1 ==> r.v() == self.v(), n == 0 ==> r.v() == 1real { R { x: self.x.powi(n) } }
    #[verifier::external_body]
    pub fn min(self, other: R) -> (r: R) ensures r.v() == (if self.v() <= other.v() { self.v() } else { other.v() }) { R { x: self.x.min(other.x) } }
    #[verifier::external_body]
    pub fn is_infinite(self) -> (r: bool) ensures !r { false }
    #[verifier::external_body]
    pub fn is_sign_negative(self) -> (r: bool) ensures self.v() < 0real ==> r, self.v() > 0real ==> !r { self.x.is_sign_negative() }
    #[verifier::external_body]
    pub fn is_sign_positive(self) -> (r: bool) ensures self.v() > 0real ==> r, self.v() < 0real ==> !r { self.x.is_sign_positive() }
    #[verifier::external_body]
    pub fn mul_add(self, a: R, b: R) -> (r: R) ensures r.v() == rmul(self.v(), a.v()) + b.v() { R { x: self.x.mul_add(a.x, b.x) } }
    #[verifier::external_body]
    pub fn clamp(self, lo: R, hi: R) -> (r: R) requires lo.v() <= hi.v() ensures r.v() == (if self.v() < lo.v() { lo.v() } else if self.v() > hi.v() { hi.v() } else { self.v() }) { R { x: self.x.clamp(lo.x, hi.x) } }
    #[verifier::external_body]
    pub fn hypot(self, other: R) -> (r: R) ensures r.v() == sqrt_spec(rmul(self.v(), self.v()) + rmul(other.v(), other.v())) { R { x: self.x.hypot(other.x) } }
    #[verifier::external_body]
    pub fn copysign(self, sign: R) -> (r: R) ensures sign.v() > 0real ==> r.v() == (if self.v() >= 0real { self.v() } else { -self.v() }), sign.v() < 0real ==> r.v() == (if self.v() >= 0real { -self.v() } else { self.v() }) { R { x: self.x.copysign(sign.x) } }
    // powers and logarithms in other bases: some (uninterpreted) function of the arguments
    #[verifier::external_body]
    pub fn powf(self, e: R) -> (r: R) ensures r.v() == powf_spec(self.v(), e.v()) { R { x: self.x.powf(e.x) } }
    #[verifier::external_body]
    pub fn log10(self) -> (r: R) ensures r.v() == log10_spec(self.v()) { R { x: self.x.log10() } }
    #[verifier::external_body]
    pub fn log2(self) -> (r: R) ensures r.v() == log2_spec(self.v()) { R { x: self.x.log2() } }
    #[verifier::external_body]
    pub fn cbrt(self) -> (r: R) ensures r.v() == cbrt_spec(self.v()) { R { x: self.x.cbrt() } }
    #[verifier::external_body]
    pub fn max(self, other: R) -> (r: R) ensures r.v() == (if self.v() >= other.v() { self.v() } else { other.v() }) { R { x: self.x.max(other.x) } }
}
