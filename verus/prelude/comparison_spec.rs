// ===== spec functions for comparison.rs =====
// sums of the differences a_i - b_i over a sequence of pairs (C04: paired = mean CI of the differences)
pub open spec fn dsum_to(s: Seq<(R, R)>, k: int) -> real decreases k { if k <= 0 { 0real } else { dsum_to(s, k - 1) + (s[k - 1].0.v() - s[k - 1].1.v()) } }
pub open spec fn dsumsq_to(s: Seq<(R, R)>, k: int) -> real decreases k {
    if k <= 0 { 0real } else { dsumsq_to(s, k - 1) + rmul(s[k - 1].0.v() - s[k - 1].1.v(), s[k - 1].0.v() - s[k - 1].1.v()) }
}
// sums of the differences of two sequences fed in parallel (Paired::extend)
pub open spec fn psum_to(a: Seq<R>, b: Seq<R>, k: int) -> real decreases k { if k <= 0 { 0real } else { psum_to(a, b, k - 1) + (a[k - 1].v() - b[k - 1].v()) } }
pub open spec fn psumsq_to(a: Seq<R>, b: Seq<R>, k: int) -> real decreases k {
    if k <= 0 { 0real } else { psumsq_to(a, b, k - 1) + rmul(a[k - 1].v() - b[k - 1].v(), a[k - 1].v() - b[k - 1].v()) }
}
// what remains to be yielded by an iterator over `s` after k items (prophetic iterator model of vstd)
pub open spec fn tail_of<T>(rem: Seq<&T>, s: Seq<T>, k: int) -> bool {
    rem.len() == s.len() - k && forall|i: int| 0 <= i < rem.len() ==> *#[trigger] rem[i] == s[k + i]
}
// ---- unpaired comparison (C04): (mean_a - mean_b) -/+ c * sqrt(sa^2/na + sb^2/nb), c = t quantile at the documented effective dof
pub open spec fn welch_x(s: real, q: real, n: nat) -> real { rdiv(var_of(s, q, n), n as real) }            // s^2 / n
pub open spec fn welch_se(x: real, y: real) -> real { sqrt_spec(x + y) }
// (x + y)^2 / (x^2/(na+1) + y^2/(nb+1)) - 2
pub open spec fn welch_dof(x: real, na: nat, y: real, nb: nat) -> real {
    rdiv(rmul(x + y, x + y), rdiv(rmul(x, x), (na + 1) as real) + rdiv(rmul(y, y), (nb + 1) as real)) - 2real
}
// two constant samples: no spread, the interval is degenerate and the dof immaterial (the code uses 1)
pub open spec fn welch_dof_used(x: real, na: nat, y: real, nb: nat) -> real { if welch_se(x, y) == 0real { 1real } else { welch_dof(x, na, y, nb) } }
pub open spec fn unpaired_lo(c: Confidence, sa: real, qa: real, na: nat, sb: real, qb: real, nb: nat) -> real {
    let x = welch_x(sa, qa, na); let y = welch_x(sb, qb, nb);
    (mean_of(sa, na) - mean_of(sb, nb)) - rmul(crit(c, welch_dof_used(x, na, y, nb)), welch_se(x, y))
}
pub open spec fn unpaired_hi(c: Confidence, sa: real, qa: real, na: nat, sb: real, qb: real, nb: nat) -> real {
    let x = welch_x(sa, qa, na); let y = welch_x(sb, qb, nb);
    (mean_of(sa, na) - mean_of(sb, nb)) + rmul(crit(c, welch_dof_used(x, na, y, nb)), welch_se(x, y))
}
// the documented effective dof is at least 1 whenever there is any spread and both samples have >= 2 observations
pub broadcast proof fn lemma_welch_dof_pos(x: real, na: nat, y: real, nb: nat)
    requires x >= 0real, y >= 0real, x + y > 0real, na >= 2, nb >= 2,
    ensures #[trigger] welch_dof(x, na, y, nb) >= 1real,
{
    let a = (na + 1) as real;
    let b = (nb + 1) as real;
    let xx = x * x;
    let yy = y * y;
    let s = x + y;
    let ss = s * s;
    let xy = x * y;
    assert(xx >= 0real && yy >= 0real && xy >= 0real) by(nonlinear_arith) requires x >= 0real, y >= 0real, xx == x * x, yy == y * y, xy == x * y;
    assert(ss == xx + 2real * xy + yy) by(nonlinear_arith) requires s == x + y, ss == s * s, xx == x * x, yy == y * y, xy == x * y;
    let p = xx / a;
    let q = yy / b;
    assert(p * a == xx && 0real <= p && 3real * p <= xx) by(nonlinear_arith) requires p == xx / a, a >= 3real, xx >= 0real;
    assert(q * b == yy && 0real <= q && 3real * q <= yy) by(nonlinear_arith) requires q == yy / b, b >= 3real, yy >= 0real;
    let d = p + q;
    assert(xx > 0real || yy > 0real) by(nonlinear_arith) requires x >= 0real, y >= 0real, x + y > 0real, xx == x * x, yy == y * y;
    assert(p > 0real || q > 0real) by(nonlinear_arith) requires p * a == xx, q * b == yy, a >= 3real, b >= 3real, xx > 0real || yy > 0real, p >= 0real, q >= 0real;
    assert(d > 0real);
    assert(3real * d <= ss);
    let r = ss / d;
    assert(r >= 3real) by(nonlinear_arith) requires r == ss / d, d > 0real, 3real * d <= ss;
    assert(rmul(x, x) == xx && rmul(y, y) == yy && rmul(x + y, x + y) == ss);
    assert(rdiv(xx, a) == p && rdiv(yy, b) == q);
    assert(rdiv(ss, d) == r);
}
pub broadcast proof fn lemma_sqrt_zero(x: real) requires x >= 0real ensures (#[trigger] sqrt_spec(x) == 0real) <==> x == 0real {
    ax_sqrt(x);
    let r = sqrt_spec(x);
    assert(rmul(r, r) == r * r);
    if r == 0real { assert(r * r == 0real) by(nonlinear_arith) requires r == 0real; }
    if r > 0real { assert(r * r > 0real) by(nonlinear_arith) requires r > 0real; }
}
// C04: exchanging the two samples negates and mirrors the interval and exchanges upper / lower one-sidedness
pub proof fn lemma_unpaired_swap(c: Confidence, sa: real, qa: real, na: nat, sb: real, qb: real, nb: nat)
    ensures unpaired_lo(c, sb, qb, nb, sa, qa, na) == -unpaired_hi(conf_flipped(c), sa, qa, na, sb, qb, nb),
            unpaired_hi(c, sb, qb, nb, sa, qa, na) == -unpaired_lo(conf_flipped(c), sa, qa, na, sb, qb, nb),
            conf_flipped(c) is TwoSided <==> c is TwoSided, conf_flipped(c) is UpperOneSided <==> c is LowerOneSided, conf_flipped(c) is LowerOneSided <==> c is UpperOneSided,
{
    let x = welch_x(sa, qa, na); let y = welch_x(sb, qb, nb);
    assert(conf_quantile(conf_flipped(c)) == conf_quantile(c));
    assert(x + y == y + x);
    assert(welch_dof(x, na, y, nb) == welch_dof(y, nb, x, na));
    assert(welch_se(x, y) == welch_se(y, x));
}
// C04: the paired interval is the arithmetic-mean interval of the differences: Paired::ci_mean's contract is stated with the
// very same spec functions (mean_ci_lo / mean_ci_hi) over the view (sum d_i, sum d_i^2, n) that append_pair maintains.
