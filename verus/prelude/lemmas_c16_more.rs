// C16 for the back-transformed means.  Scaling the data by c > 0:
//   logs shift by ln c  (ln(c x) = ln c + ln x), so the log-space interval shifts by ln c and exp multiplies every bound by c;
//   reciprocals scale by 1/c, so the reciprocal-space interval scales by 1/c and the reciprocal multiplies every bound by c.
pub proof fn lemma_geometric_ci_scale(cf: Confidence, s: real, q: real, n: nat, c: real)
    requires n >= 2, c > 0real,
    ensures ({
        let nr = n as real; let d = ln_spec(c);
        let (s2, q2) = (s + nr * d, q + 2real * d * s + nr * d * d);     // log-space sums of the scaled data (lemma_sums_affine with c = 1)
        exp_spec(mean_ci_lo(cf, s2, q2, n)) == c * exp_spec(mean_ci_lo(cf, s, q, n)) && exp_spec(mean_ci_hi(cf, s2, q2, n)) == c * exp_spec(mean_ci_hi(cf, s, q, n))
    }),
{
    let nr = n as real; let d = ln_spec(c);
    let (s2, q2) = (s + nr * d, q + 2real * d * s + nr * d * d);
    lemma_mean_ci_affine(cf, s, q, n, 1real, d);
    assert(1real * s + nr * d == s2);
    assert(1real * 1real * q + 2real * 1real * d * s + nr * d * d == q2) by(nonlinear_arith) requires q2 == q + 2real * d * s + nr * d * d;
    let (lo, hi) = (mean_ci_lo(cf, s, q, n), mean_ci_hi(cf, s, q, n));
    assert(mean_ci_lo(cf, s2, q2, n) == lo + d);
    assert(mean_ci_hi(cf, s2, q2, n) == hi + d);
    ax_exp_add(lo, d); ax_exp_add(hi, d);
    ax_exp_ln(c);
    assert(exp_spec(d) == c);
    assert(exp_spec(lo) * exp_spec(d) == c * exp_spec(lo)) by(nonlinear_arith) requires exp_spec(d) == c;
    assert(exp_spec(hi) * exp_spec(d) == c * exp_spec(hi)) by(nonlinear_arith) requires exp_spec(d) == c;
}
pub proof fn lemma_harmonic_ci_scale(cf: Confidence, s: real, q: real, n: nat, c: real)
    requires n >= 2, c > 0real, mean_ci_lo(conf_flipped(cf), s, q, n) > 0real, mean_ci_hi(conf_flipped(cf), s, q, n) > 0real,
    ensures ({
        let e = 1real / c;
        let (s2, q2) = (e * s, e * e * q);                                  // reciprocal-space sums of the scaled data
        let f = conf_flipped(cf);
        recip(mean_ci_hi(f, s2, q2, n)) == c * recip(mean_ci_hi(f, s, q, n)) && recip(mean_ci_lo(f, s2, q2, n)) == c * recip(mean_ci_lo(f, s, q, n))
    }),
{
    let e = 1real / c;
    let nr = n as real;
    let f = conf_flipped(cf);
    assert(e > 0real && e * c == 1real) by(nonlinear_arith) requires e == 1real / c, c > 0real;
    lemma_mean_ci_affine(f, s, q, n, e, 0real);
    assert(e * s + nr * 0real == e * s && e * e * q + 2real * e * 0real * s + nr * 0real * 0real == e * e * q) by(nonlinear_arith);
    let (lo, hi) = (mean_ci_lo(f, s, q, n), mean_ci_hi(f, s, q, n));
    assert(e * lo + 0real == e * lo && e * hi + 0real == e * hi);
    assert(1real / (e * lo) == c * (1real / lo)) by(nonlinear_arith) requires e * c == 1real, lo > 0real, e > 0real, c > 0real;
    assert(1real / (e * hi) == c * (1real / hi)) by(nonlinear_arith) requires e * c == 1real, hi > 0real, e > 0real, c > 0real;
    assert(e * lo > 0real && e * hi > 0real) by(nonlinear_arith) requires e > 0real, lo > 0real, hi > 0real;
}
