// the inherent constructors, kind predicates, set predicates and bound accessors of Interval<T> under contract (shared by the
// units `interval` and `interval_order`: a restructured partial_cmp that calls them is verified against these contracts)
//@impl src/interval.rs impl<T: PartialOrd> Interval<T>
//@fn new ret r
//@| ensures T::obeys_partial_cmp_spec() ==> r == new_spec(low, high),
//@|         T::obeys_partial_cmp_spec() && r is Ok ==> wf(r->Ok_0),
//@fn new_upper ret r
//@| ensures r == Interval::UpperOneSided(low),
//@fn new_lower ret r
//@| ensures r == Interval::LowerOneSided(high),
//@fn is_two_sided ret r
//@| ensures r == (*self is TwoSided),
//@fn is_one_sided ret r
//@| ensures r == !(*self is TwoSided),
//@fn is_upper ret r
//@| ensures r == (*self is UpperOneSided),
//@fn is_lower ret r
//@| ensures r == (*self is LowerOneSided),
//@fn contains ret r
//@| requires total_order::<T>(),
//@| ensures r == den(*self, *x),
//@fn intersects ret r
//@| requires total_order::<T>(),
//@| ensures r == meet_qf(*self, *other),
//@fn is_included_in ret r
//@| requires total_order::<T>(),
//@| ensures r == incl_qf(*other, *self),
//@fn includes ret r
//@| requires total_order::<T>(),
//@| ensures r == incl_qf(*self, *other),
//@fn left ret r
//@| ensures match *self { Interval::TwoSided(l, _) => r == Some(&l), Interval::UpperOneSided(l) => r == Some(&l), Interval::LowerOneSided(_) => r is None },
//@fn right ret r
//@| ensures match *self { Interval::TwoSided(_, h) => r == Some(&h), Interval::LowerOneSided(h) => r == Some(&h), Interval::UpperOneSided(_) => r is None },
//@endimpl
