// ===== spec functions for quantile.rs (C03) =====
// 0-based rank of a proportion p in a sample of n: min(floor(p * n), n - 1)
pub open spec fn rank_of(n: usize, p: real) -> usize {
    let i = to_usize_spec(if rmul(p, n as real) >= 0real { floor_spec(rmul(p, n as real)) } else { 0int });
    if i <= n - 1 { i } else { (n - 1) as usize }
}
pub open spec fn index_spec(n: usize, p: real, pr: R) -> CIResult<usize> {
    if n == 0 { Err(CIError::TooFewSamples(n)) }
    else if !(0real <= p <= 1real) { Err(CIError::InvalidQuantile(pr)) }
    else { Ok(rank_of(n, p)) }
}
// the count the quantile stands for: round(q * n)
pub open spec fn q_count(n: usize, q: real) -> usize {
    to_usize_spec(if round_spec(rmul(q, n as real)) as real >= 0real { floor_spec(round_spec(rmul(q, n as real)) as real) } else { 0int })
}
pub open spec fn ranks_by_kind(c: Confidence, lo: usize, hi: usize) -> CIResult<Interval<usize>> {
    match c {
        Confidence::TwoSided(_) => if lo <= hi { Ok(Interval::TwoSided(lo, hi)) } else { Err(CIError::IntervalError(IntervalError::InvalidBounds)) },
        Confidence::UpperOneSided(_) => Ok(Interval::UpperOneSided(lo)),
        Confidence::LowerOneSided(_) => Ok(Interval::LowerOneSided(hi)),
    }
}
// property C03: domain checks in the documented order, successes = round(q n), Wilson bounds -> ranks
pub open spec fn qci_spec(c: Confidence, n: usize, q: R) -> CIResult<Interval<usize>> {
    if !(0real < q.v() < 1real) { Err(CIError::InvalidQuantile(q)) }
    else if n < 4 { Err(CIError::TooFewSamples(n)) }
    else {
        match wilson_spec(c, n, q_count(n, q.v())) {
            Err(e) => Err(e),
            Ok(i) => match i {
                Interval::TwoSided(low, high) => {
                    if low.v() < 0real { Err(CIError::IndexError(low, n)) }
                    else if high.v() > 1real { Err(CIError::IndexError(high, n)) }
                    else { ranks_by_kind(c, rank_of(n, low.v()), rank_of(n, high.v())) }
                },
                _ => arbitrary(),
            },
        }
    }
}
// C03: on the admissible domain (level >= 1/2) the ranks are in range, ordered, and bracket the rank round(q n) of the sample quantile
pub proof fn lemma_quantile_ranks_bracket(c: Confidence, n: usize, q: R)
    requires conf_valid(c), conf_quantile(c) >= 0.5real, n >= 4, 0real < q.v() < 1real,
             2 <= q_count(n, q.v()), q_count(n, q.v()) + 2 <= n,
    ensures ({
        let k = q_count(n, q.v()); let z = z_of(c);
        let lo = rank_of(n, w_lo(n as real, k as real, z)); let hi = rank_of(n, w_hi(n as real, k as real, z));
        &&& lo <= k <= hi < n
        &&& qci_spec(c, n, q) == (match c {
                Confidence::TwoSided(_) => Ok::<Interval<usize>, CIError>(Interval::TwoSided(lo, hi)),
                Confidence::UpperOneSided(_) => Ok::<Interval<usize>, CIError>(Interval::UpperOneSided(lo)),
                Confidence::LowerOneSided(_) => Ok::<Interval<usize>, CIError>(Interval::LowerOneSided(hi)),
            })
    }),
{
    let k = q_count(n, q.v());
    let z = z_of(c);
    let nr = n as real;
    let kr = k as real;
    lemma_wilson_is_score_interval(c, n, k);
    let pl = w_lo(nr, kr, z);
    let ph = w_hi(nr, kr, z);
    let kk = kr / nr;
    assert(kk * nr == kr) by(nonlinear_arith) requires kk == kr / nr, nr >= 4real;
    assert(pl * nr <= kr) by(nonlinear_arith) requires pl <= kk, kk * nr == kr, nr >= 4real;
    assert(ph * nr >= kr) by(nonlinear_arith) requires ph >= kk, kk * nr == kr, nr >= 4real;
    assert(pl * nr >= 0real) by(nonlinear_arith) requires pl >= 0real, nr >= 4real;
    assert(ph * nr <= nr) by(nonlinear_arith) requires ph <= 1real, nr >= 4real;
    assert(rmul(pl, nr) == pl * nr && rmul(ph, nr) == ph * nr);
    lemma_floor_mono(pl * nr, kr);
    lemma_floor_mono(kr, ph * nr);
    lemma_floor_mono(0real, pl * nr);
    lemma_floor_mono(ph * nr, nr);
    lemma_floor_int(k as int);
    lemma_floor_int(n as int);
    lemma_floor_int(0int);
    ax_r_of(pl); ax_r_of(ph); ax_r_of(1real); ax_r_of(0real);
}
// C03: the element-level result is the order statistics at the ranks: same kind, each bound a clone of sorted[rank]
// (for a two-sided request the interval is built with Interval::new, so equal or ordered elements are required for Ok)
pub open spec fn elements_at<T: PartialOrd + Clone>(ranks: Interval<usize>, sorted: Seq<T>, r: CIResult<Interval<T>>) -> bool {
    match ranks {
        Interval::TwoSided(i, j) => i < sorted.len() && j < sorted.len() && (r is Ok ==> r->Ok_0 is TwoSided && cloned(sorted[i as int], r->Ok_0->TwoSided_0) && cloned(sorted[j as int], r->Ok_0->TwoSided_1))
            && (r is Err ==> r->Err_0 == CIError::IntervalError(IntervalError::InvalidBounds)),
        Interval::UpperOneSided(i) => i < sorted.len() && r is Ok && r->Ok_0 is UpperOneSided && cloned(sorted[i as int], r->Ok_0->UpperOneSided_0),
        Interval::LowerOneSided(j) => j < sorted.len() && r is Ok && r->Ok_0 is LowerOneSided && cloned(sorted[j as int], r->Ok_0->LowerOneSided_0),
    }
}
