// ===== utils.rs KahanSum + mean.rs Arithmetic / Harmonic / Geometric under contract (shared by the units `means` and `comparison`) =====
// ---------------- utils.rs: compensated sum (in the ideal model the compensation term is always 0)
//@item src/utils.rs struct KahanSum derive=Clone,Copy
impl KahanSum {
    pub closed spec fn val(self) -> real { self.sum.v() + self.compensation.v() }
    pub closed spec fn wf(self) -> bool { self.compensation.v() == 0real }
}
//@freefn src/utils.rs kahan_add
//@| ensures final(current_sum).v() - final(compensation).v() == old(current_sum).v() - old(compensation).v() + x.v(),
//@|         final(compensation).v() == 0real,
//@impl src/utils.rs impl<T: Float> KahanSum<T>
//@fn new ret r
//@| ensures r.wf(), r.val() == value.v(),
//@fn value ret r
//@| ensures r.v() == self.val(),
//@endimpl
//@impl src/utils.rs impl<T: Float> Default for KahanSum<T>
//@fn default ret r
//@| ensures r.wf(), r.val() == 0real,
//@endimpl
pub closed spec fn kahan_plus(k: KahanSum, x: real) -> KahanSum {
    KahanSum { sum: r_of(k.sum.v() - k.compensation.v() + x), compensation: r_of(0real) }
}
//@impl src/utils.rs impl<T: Float> core::ops::AddAssign<T> for KahanSum<T>
//@fn add_assign
//@endimpl
impl AddAssignSpecImpl<R> for KahanSum {
    open spec fn obeys_add_assign_spec() -> bool { true }
    open spec fn add_assign_req(self, rhs: R) -> bool { true }
    open spec fn add_assign_spec(self, rhs: R) -> Self { kahan_plus(self, rhs.v()) }
}
//@impl src/utils.rs impl<T: Float> core::ops::AddAssign<Self> for KahanSum<T>
//@fn add_assign
//@endimpl
impl AddAssignSpecImpl<KahanSum> for KahanSum {
    open spec fn obeys_add_assign_spec() -> bool { true }
    open spec fn add_assign_req(self, rhs: KahanSum) -> bool { true }
    open spec fn add_assign_spec(self, rhs: KahanSum) -> Self { kahan_merge(self, rhs) }
}
pub closed spec fn kahan_merge(k: KahanSum, o: KahanSum) -> KahanSum { kahan_plus(kahan_plus(k, o.sum.v()), o.compensation.v()) }
pub proof fn lemma_kahan_merge(k: KahanSum, o: KahanSum)
    requires k.wf(), o.wf(),
    ensures kahan_merge(k, o).wf(), kahan_merge(k, o).val() == k.val() + o.val(),
{}
pub proof fn lemma_kahan_plus(k: KahanSum, x: real)
    requires k.wf(),
    ensures kahan_plus(k, x).wf(), kahan_plus(k, x).val() == k.val() + x,
{}

// ---------------- mean.rs: Arithmetic
//@item src/mean.rs struct Arithmetic derive=Clone,Copy
impl Arithmetic {
    pub closed spec fn wf(self) -> bool { self.sum.wf() && self.sum_sq.wf() }
    pub closed spec fn s1(self) -> real { self.sum.val() }
    pub closed spec fn s2(self) -> real { self.sum_sq.val() }
    pub closed spec fn n(self) -> nat { self.count as nat }
}
//@impl src/mean.rs impl<F: Float> Default for Arithmetic<F>
//@fn default ret r
//@| ensures r.wf(), r.s1() == 0real, r.s2() == 0real, r.n() == 0,
//@endimpl
//@impl src/mean.rs impl<F: Float> Arithmetic<F>
//@fn new ret r
//@| ensures r.wf(), r.s1() == 0real, r.s2() == 0real, r.n() == 0,
//@fn append ret r vis pub
//@| requires old(self).wf(), old(self).n() < usize::MAX,
//@| ensures r is Ok, final(self).wf(),
//@|         final(self).s1() == old(self).s1() + x.v(),
//@|         final(self).s2() == old(self).s2() + rmul(x.v(), x.v()),
//@|         final(self).n() == old(self).n() + 1,
//@fn sample_count ret r
//@| ensures r as nat == self.n(),
//@fn sample_mean ret r
//@| requires self.wf(),
//@| ensures r.v() == mean_of(self.s1(), self.n()),
//@fn sample_variance ret r
//@| requires self.wf(), self.n() >= 1,
//@| ensures r.v() == var_of(self.s1(), self.s2(), self.n()),
//@fn sample_std_dev ret r
//@| requires self.wf(), self.n() >= 1,
//@| ensures r.v() == sd_of(self.s1(), self.s2(), self.n()),
//@fn sample_sem ret r
//@| requires self.wf(), self.n() >= 1,
//@| ensures r.v() == rdiv(sd_of(self.s1(), self.s2(), self.n()), sqrt_spec((self.n() - 1) as real)),
//@fn ci_mean ret r
//@| requires self.wf(), conf_valid(confidence),
//@| ensures self.n() < 2 ==> r is Err && r->Err_0 == CIError::TooFewSamples(self.n() as usize),
//@|         self.n() >= 2 ==> r is Ok,
//@|         r is Ok ==> ci_by_kind(confidence, mean_ci_lo(confidence, self.s1(), self.s2(), self.n()), mean_ci_hi(confidence, self.s1(), self.s2(), self.n()), r->Ok_0),
//@fn add ret r
//@| requires self.wf(), rhs.wf(), self.n() + rhs.n() <= usize::MAX,
//@| ensures r == arith_merge(self, rhs), r.wf(), r.s1() == self.s1() + rhs.s1(), r.s2() == self.s2() + rhs.s2(), r.n() == self.n() + rhs.n(),
//@endimpl
pub closed spec fn arith_merge(a: Arithmetic, b: Arithmetic) -> Arithmetic {
    Arithmetic { sum: kahan_merge(a.sum, b.sum), sum_sq: kahan_merge(a.sum_sq, b.sum_sq), count: (a.count + b.count) as usize }
}
// the merged state's view is the component-wise sum of the views (C09)
pub broadcast proof fn lemma_arith_merge(a: Arithmetic, b: Arithmetic)
    requires a.wf(), b.wf(), a.n() + b.n() <= usize::MAX,
    ensures (#[trigger] arith_merge(a, b)).wf(), arith_merge(a, b).s1() == a.s1() + b.s1(), arith_merge(a, b).s2() == a.s2() + b.s2(), arith_merge(a, b).n() == a.n() + b.n(),
{ lemma_kahan_merge(a.sum, b.sum); lemma_kahan_merge(a.sum_sq, b.sum_sq); }

// trait StatisticsOps default methods, instantiated at Self = Arithmetic (`self.append` is the inherent append the
// macro-generated trait impl delegates to; that delegation is decided by the Kani harness c01_statistics_ops_delegates_*)
//@impl src/mean.rs pub trait StatisticsOps<F: Float>: Default => impl Arithmetic
//@fn extend ret r vis pub
//@| requires old(self).wf(), old(self).n() + data.len() < usize::MAX,
//@| ensures r is Ok, final(self).wf(), final(self).n() == old(self).n() + data.len(),
//@|         final(self).s1() == old(self).s1() + sum_to(data@, data.len() as int),
//@|         final(self).s2() == old(self).s2() + sumsq_to(data@, data.len() as int),
//@loop 0| invariant self.wf(), self.n() == old(self).n() + it.index@, old(self).n() + data.len() < usize::MAX,
//@loop 0|     self.s1() == old(self).s1() + sum_to(data@, it.index@ as int),
//@loop 0|     self.s2() == old(self).s2() + sumsq_to(data@, it.index@ as int),
//@fn from_iter ret r vis pub
//@| requires data.len() < usize::MAX,
//@| ensures r is Ok, r->Ok_0.wf(), r->Ok_0.n() == data.len(), r->Ok_0.s1() == sum_to(data@, data.len() as int), r->Ok_0.s2() == sumsq_to(data@, data.len() as int),
//@endimpl
//@impl src/mean.rs impl<F: Float> Arithmetic<F>
//@fn ci ret r
//@| requires data.len() < usize::MAX, conf_valid(confidence),
//@| ensures data.len() < 2 ==> r is Err && r->Err_0 == CIError::TooFewSamples(data.len()),
//@|         data.len() >= 2 ==> r is Ok,
//@|         r is Ok ==> ci_by_kind(confidence, mean_ci_lo(confidence, sum_to(data@, data.len() as int), sumsq_to(data@, data.len() as int), data.len() as nat),
//@|                                  mean_ci_hi(confidence, sum_to(data@, data.len() as int), sumsq_to(data@, data.len() as int), data.len() as nat), r->Ok_0),
//@endimpl
//@impl src/mean.rs impl<F: Float> core::ops::Add for Arithmetic<F>
//@fn add
//@endimpl
impl AddSpecImpl for Arithmetic {
    open spec fn obeys_add_spec() -> bool { true }
    open spec fn add_req(self, rhs: Arithmetic) -> bool { self.wf() && rhs.wf() && self.n() + rhs.n() <= usize::MAX }
    open spec fn add_spec(self, rhs: Arithmetic) -> Arithmetic { arith_merge(self, rhs) }
}
//@impl src/mean.rs impl<F: Float> core::ops::AddAssign for Arithmetic<F>
//@fn add_assign
//@endimpl
impl AddAssignSpecImpl for Arithmetic {
    open spec fn obeys_add_assign_spec() -> bool { true }
    open spec fn add_assign_req(self, rhs: Arithmetic) -> bool { self.wf() && rhs.wf() && self.n() + rhs.n() <= usize::MAX }
    open spec fn add_assign_spec(self, rhs: Arithmetic) -> Arithmetic { arith_merge(self, rhs) }
}

// ---------------- mean.rs: Harmonic (arithmetic statistics of the reciprocals)
//@item src/mean.rs struct Harmonic derive=Clone,Copy
impl Harmonic { pub closed spec fn inner(self) -> Arithmetic { self.recip_space } }
//@impl src/mean.rs impl<F: Float> Default for Harmonic<F>
//@fn default ret r
//@| ensures r.inner().wf(), r.inner().s1() == 0real, r.inner().s2() == 0real, r.inner().n() == 0,
//@endimpl
//@impl src/mean.rs impl<F: Float> Harmonic<F>
//@fn new ret r
//@| ensures r.inner().wf(), r.inner().s1() == 0real, r.inner().s2() == 0real, r.inner().n() == 0,
//@fn append ret r
//@| requires old(self).inner().wf(), old(self).inner().n() < usize::MAX,
//@| ensures x.v() <= 0real ==> r is Err && r->Err_0 == CIError::NonPositiveValue(x) && *final(self) == *old(self),
//@|         x.v() > 0real ==> r is Ok && final(self).inner().wf()
//@|             && final(self).inner().s1() == old(self).inner().s1() + recip(x.v())
//@|             && final(self).inner().s2() == old(self).inner().s2() + rmul(recip(x.v()), recip(x.v()))
//@|             && final(self).inner().n() == old(self).inner().n() + 1,
//@fn sample_mean ret r
//@| requires self.inner().wf(),
//@| ensures r.v() == recip(mean_of(self.inner().s1(), self.inner().n())),
//@fn sample_sem ret r
//@| requires self.inner().wf(), self.inner().n() >= 1,
//@| ensures r.v() == harmonic_sem(self.inner().s1(), self.inner().s2(), self.inner().n()),
//@fn sample_count ret r
//@| ensures r as nat == self.inner().n(),
//@fn ci_mean ret r
//@| requires self.inner().wf(), conf_valid(confidence),
//@| ensures self.inner().n() < 2 ==> r is Err && r->Err_0 == CIError::TooFewSamples(self.inner().n() as usize),
//@|         r is Ok ==> harmonic_ci(confidence, self.inner().s1(), self.inner().s2(), self.inner().n(), r->Ok_0),
//@fn add ret r
//@| requires self.inner().wf(), rhs.inner().wf(), self.inner().n() + rhs.inner().n() <= usize::MAX,
//@| ensures r.inner() == arith_merge(self.inner(), rhs.inner()),
//@endimpl

//@impl src/mean.rs pub trait StatisticsOps<F: Float>: Default => impl Harmonic
//@fn extend ret r vis pub
//@| requires old(self).inner().wf(), old(self).inner().n() + data.len() < usize::MAX,
//@| ensures all_positive_to(data@, data.len() as int) ==> r is Ok,
//@|         r is Ok ==> all_positive_to(data@, data.len() as int) && final(self).inner().wf() && final(self).inner().n() == old(self).inner().n() + data.len()
//@|             && final(self).inner().s1() == old(self).inner().s1() + sum_f_to(data@, data.len() as int, |x: real| recip(x))
//@|             && final(self).inner().s2() == old(self).inner().s2() + sumsq_f_to(data@, data.len() as int, |x: real| recip(x)),
//@|         r is Err ==> !all_positive_to(data@, data.len() as int) && r->Err_0 is NonPositiveValue,
//@loop 0| invariant self.inner().wf(), self.inner().n() == old(self).inner().n() + it.index@, old(self).inner().n() + data.len() < usize::MAX,
//@loop 0|     all_positive_to(data@, it.index@ as int),
//@loop 0|     self.inner().s1() == old(self).inner().s1() + sum_f_to(data@, it.index@ as int, |x: real| recip(x)),
//@loop 0|     self.inner().s2() == old(self).inner().s2() + sumsq_f_to(data@, it.index@ as int, |x: real| recip(x)),
//@fn from_iter ret r vis pub
//@| requires data.len() < usize::MAX,
//@| ensures all_positive_to(data@, data.len() as int) ==> r is Ok,
//@|         r is Ok ==> all_positive_to(data@, data.len() as int) && r->Ok_0.inner().wf() && r->Ok_0.inner().n() == data.len()
//@|             && r->Ok_0.inner().s1() == sum_f_to(data@, data.len() as int, |x: real| recip(x))
//@|             && r->Ok_0.inner().s2() == sumsq_f_to(data@, data.len() as int, |x: real| recip(x)),
//@|         r is Err ==> r->Err_0 is NonPositiveValue,
//@endimpl
//@impl src/mean.rs impl<F: Float> Harmonic<F>
//@fn ci ret r
//@| requires data.len() < usize::MAX, conf_valid(confidence),
//@| ensures r is Ok ==> harmonic_ci(confidence, sum_f_to(data@, data.len() as int, |x: real| recip(x)), sumsq_f_to(data@, data.len() as int, |x: real| recip(x)), data.len() as nat, r->Ok_0),
//@|         !all_positive_to(data@, data.len() as int) ==> r is Err && r->Err_0 is NonPositiveValue,
//@endimpl

// ---------------- mean.rs: Geometric (arithmetic statistics of the logarithms)
//@item src/mean.rs struct Geometric derive=Clone,Copy
impl Geometric { pub closed spec fn inner(self) -> Arithmetic { self.log_space } }
//@impl src/mean.rs impl<F: Float> Default for Geometric<F>
//@fn default ret r
//@| ensures r.inner().wf(), r.inner().s1() == 0real, r.inner().s2() == 0real, r.inner().n() == 0,
//@endimpl
//@impl src/mean.rs impl<F: Float> Geometric<F>
//@fn new ret r
//@| ensures r.inner().wf(), r.inner().s1() == 0real, r.inner().s2() == 0real, r.inner().n() == 0,
//@fn append ret r
//@| requires old(self).inner().wf(), old(self).inner().n() < usize::MAX,
//@| ensures x.v() <= 0real ==> r is Err && r->Err_0 == CIError::NonPositiveValue(x) && *final(self) == *old(self),
//@|         x.v() > 0real ==> r is Ok && final(self).inner().wf()
//@|             && final(self).inner().s1() == old(self).inner().s1() + ln_spec(x.v())
//@|             && final(self).inner().s2() == old(self).inner().s2() + rmul(ln_spec(x.v()), ln_spec(x.v()))
//@|             && final(self).inner().n() == old(self).inner().n() + 1,
//@fn sample_mean ret r
//@| requires self.inner().wf(),
//@| ensures r.v() == exp_spec(mean_of(self.inner().s1(), self.inner().n())),
//@fn sample_sem ret r
//@| requires self.inner().wf(), self.inner().n() >= 1,
//@| ensures r.v() == geometric_sem(self.inner().s1(), self.inner().s2(), self.inner().n()),
//@fn sample_count ret r
//@| ensures r as nat == self.inner().n(),
//@fn ci_mean ret r
//@| requires self.inner().wf(), conf_valid(confidence),
//@| ensures self.inner().n() < 2 ==> r is Err && r->Err_0 == CIError::TooFewSamples(self.inner().n() as usize),
//@|         r is Ok ==> geometric_ci(confidence, self.inner().s1(), self.inner().s2(), self.inner().n(), r->Ok_0),
//@fn add ret r
//@| requires self.inner().wf(), rhs.inner().wf(), self.inner().n() + rhs.inner().n() <= usize::MAX,
//@| ensures r.inner() == arith_merge(self.inner(), rhs.inner()),
//@endimpl

//@impl src/mean.rs pub trait StatisticsOps<F: Float>: Default => impl Geometric
//@fn extend ret r vis pub
//@| requires old(self).inner().wf(), old(self).inner().n() + data.len() < usize::MAX,
//@| ensures all_positive_to(data@, data.len() as int) ==> r is Ok,
//@|         r is Ok ==> all_positive_to(data@, data.len() as int) && final(self).inner().wf() && final(self).inner().n() == old(self).inner().n() + data.len()
//@|             && final(self).inner().s1() == old(self).inner().s1() + sum_f_to(data@, data.len() as int, |x: real| ln_spec(x))
//@|             && final(self).inner().s2() == old(self).inner().s2() + sumsq_f_to(data@, data.len() as int, |x: real| ln_spec(x)),
//@|         r is Err ==> !all_positive_to(data@, data.len() as int) && r->Err_0 is NonPositiveValue,
//@loop 0| invariant self.inner().wf(), self.inner().n() == old(self).inner().n() + it.index@, old(self).inner().n() + data.len() < usize::MAX,
//@loop 0|     all_positive_to(data@, it.index@ as int),
//@loop 0|     self.inner().s1() == old(self).inner().s1() + sum_f_to(data@, it.index@ as int, |x: real| ln_spec(x)),
//@loop 0|     self.inner().s2() == old(self).inner().s2() + sumsq_f_to(data@, it.index@ as int, |x: real| ln_spec(x)),
//@fn from_iter ret r vis pub
//@| requires data.len() < usize::MAX,
//@| ensures all_positive_to(data@, data.len() as int) ==> r is Ok,
//@|         r is Ok ==> all_positive_to(data@, data.len() as int) && r->Ok_0.inner().wf() && r->Ok_0.inner().n() == data.len()
//@|             && r->Ok_0.inner().s1() == sum_f_to(data@, data.len() as int, |x: real| ln_spec(x))
//@|             && r->Ok_0.inner().s2() == sumsq_f_to(data@, data.len() as int, |x: real| ln_spec(x)),
//@|         r is Err ==> r->Err_0 is NonPositiveValue,
//@endimpl
//@impl src/mean.rs impl<F: Float> Geometric<F>
//@fn ci ret r
//@| requires data.len() < usize::MAX, conf_valid(confidence),
//@| ensures r is Ok ==> geometric_ci(confidence, sum_f_to(data@, data.len() as int, |x: real| ln_spec(x)), sumsq_f_to(data@, data.len() as int, |x: real| ln_spec(x)), data.len() as nat, r->Ok_0),
//@|         !all_positive_to(data@, data.len() as int) ==> r is Err && r->Err_0 is NonPositiveValue,
//@endimpl

// trait impls generated by impl_statistics_ops_for!(Arithmetic<F>) and impl_mean_ci_for!(Arithmetic<F>): each invocation is expanded at check time (rule M1)
// and every delegating method verified under the contract of the inherent method of the same name, next to which it is emitted under a
// different name (`self.append(x)` inside the trait impl resolves to the INHERENT method, before and after the renaming)
//@impl src/mean.rs!impl_statistics_ops_for(Arithmetic<F>) impl<F: Float> StatisticsOps<F> for Arithmetic<F> => impl Arithmetic
//@fn append as ops_append ret r vis pub
//@contract_of Arithmetic::append
//@fn sample_mean as ops_sample_mean ret r vis pub
//@contract_of Arithmetic::sample_mean
//@fn sample_sem as ops_sample_sem ret r vis pub
//@contract_of Arithmetic::sample_sem
//@fn ci_mean as ops_ci_mean ret r vis pub
//@contract_of Arithmetic::ci_mean
//@fn sample_count as ops_sample_count ret r vis pub
//@contract_of Arithmetic::sample_count
//@fn ci as ops_ci ret r vis pub
//@contract_of Arithmetic::ci
//@endimpl
//@impl src/mean.rs!impl_mean_ci_for(Arithmetic<F>) impl<F: Float> MeanCI<F> for Arithmetic<F> => impl Arithmetic
//@fn ci as meanci_ci ret r vis pub
//@contract_of Arithmetic::ci
//@endimpl
// trait impls generated by impl_statistics_ops_for!(Harmonic<F>) and impl_mean_ci_for!(Harmonic<F>): each invocation is expanded at check time (rule M1)
// and every delegating method verified under the contract of the inherent method of the same name, next to which it is emitted under a
// different name (`self.append(x)` inside the trait impl resolves to the INHERENT method, before and after the renaming)
//@impl src/mean.rs!impl_statistics_ops_for(Harmonic<F>) impl<F: Float> StatisticsOps<F> for Harmonic<F> => impl Harmonic
//@fn append as ops_append ret r vis pub
//@contract_of Harmonic::append
//@fn sample_mean as ops_sample_mean ret r vis pub
//@contract_of Harmonic::sample_mean
//@fn sample_sem as ops_sample_sem ret r vis pub
//@contract_of Harmonic::sample_sem
//@fn ci_mean as ops_ci_mean ret r vis pub
//@contract_of Harmonic::ci_mean
//@fn sample_count as ops_sample_count ret r vis pub
//@contract_of Harmonic::sample_count
//@fn ci as ops_ci ret r vis pub
//@contract_of Harmonic::ci
//@endimpl
//@impl src/mean.rs!impl_mean_ci_for(Harmonic<F>) impl<F: Float> MeanCI<F> for Harmonic<F> => impl Harmonic
//@fn ci as meanci_ci ret r vis pub
//@contract_of Harmonic::ci
//@endimpl
// trait impls generated by impl_statistics_ops_for!(Geometric<F>) and impl_mean_ci_for!(Geometric<F>): each invocation is expanded at check time (rule M1)
// and every delegating method verified under the contract of the inherent method of the same name, next to which it is emitted under a
// different name (`self.append(x)` inside the trait impl resolves to the INHERENT method, before and after the renaming)
//@impl src/mean.rs!impl_statistics_ops_for(Geometric<F>) impl<F: Float> StatisticsOps<F> for Geometric<F> => impl Geometric
//@fn append as ops_append ret r vis pub
//@contract_of Geometric::append
//@fn sample_mean as ops_sample_mean ret r vis pub
//@contract_of Geometric::sample_mean
//@fn sample_sem as ops_sample_sem ret r vis pub
//@contract_of Geometric::sample_sem
//@fn ci_mean as ops_ci_mean ret r vis pub
//@contract_of Geometric::ci_mean
//@fn sample_count as ops_sample_count ret r vis pub
//@contract_of Geometric::sample_count
//@fn ci as ops_ci ret r vis pub
//@contract_of Geometric::ci
//@endimpl
//@impl src/mean.rs!impl_mean_ci_for(Geometric<F>) impl<F: Float> MeanCI<F> for Geometric<F> => impl Geometric
//@fn ci as meanci_ci ret r vis pub
//@contract_of Geometric::ci
//@endimpl
