// ===== Wilson score interval: pure real-number lemmas (proved once in the design round, re-verified on every run) =====
// sqrt with the plain product (the prelude's axiom is phrased with rmul)
pub broadcast proof fn ax_sqrt_plain(x: real) requires x >= 0real ensures #[trigger] sqrt_spec(x) >= 0real, sqrt_spec(x) * sqrt_spec(x) == x { ax_sqrt(x); assert(rmul(sqrt_spec(x), sqrt_spec(x)) == sqrt_spec(x) * sqrt_spec(x)); }


// ---- generic quadratic facts ----
pub proof fn lemma_quad_between(d: real, l: real, u: real, p: real)
    requires d > 0real, l <= u, d * ((p - l) * (p - u)) <= 0real
    ensures l <= p <= u
{
    let a = p - l; let b = p - u;
    assert(a * b <= 0real) by(nonlinear_arith) requires d > 0real, d * (a * b) <= 0real;
    assert(!(a < 0real && b < 0real)) by(nonlinear_arith) requires a * b <= 0real;
    assert(!(a > 0real && b > 0real)) by(nonlinear_arith) requires a * b <= 0real;
}
pub proof fn lemma_quad_outside(d: real, l: real, u: real, p: real)
    requires d > 0real, l <= u, d * ((p - l) * (p - u)) > 0real
    ensures p < l || p > u
{
    let a = p - l; let b = p - u;
    assert(a * b > 0real) by(nonlinear_arith) requires d > 0real, d * (a * b) > 0real;
    assert(!(a >= 0real && b <= 0real)) by(nonlinear_arith) requires a * b > 0real;
}

// ---- Wilson objects ----
pub open spec fn wa(k: real, z: real) -> real { k + z*z/2real }
pub open spec fn wd(n: real, z: real) -> real { n + z*z }
pub open spec fn wrad(n: real, k: real, z: real) -> real { k*(n-k)/n + z*z/4real }
pub open spec fn w_center(n: real, k: real, z: real) -> real { wa(k,z) / wd(n,z) }
pub open spec fn w_span(n: real, k: real, z: real) -> real { (z / wd(n,z)) * sqrt_spec(wrad(n,k,z)) }
pub open spec fn w_lo(n: real, k: real, z: real) -> real { w_center(n,k,z) - w_span(n,k,z) }
pub open spec fn w_hi(n: real, k: real, z: real) -> real { w_center(n,k,z) + w_span(n,k,z) }
// G(k,p) = D p^2 - (2k+z^2) p + k^2/n
pub open spec fn wg(n: real, k: real, z: real, p: real) -> real { wd(n,z)*(p*p) - (2real*k + z*z)*p + (k/n)*k }

pub proof fn lemma_basic(n: real, k: real, z: real)
    requires n > 0real, 0real <= k <= n
    ensures wd(n,z) > 0real, wrad(n,k,z) >= 0real, z*z >= 0real
{
    assert(z*z >= 0real) by(nonlinear_arith);
    let kk = k/n;
    assert(kk * n == k) by(nonlinear_arith) requires kk == k/n, n > 0real;
    assert(kk >= 0real) by(nonlinear_arith) requires kk * n == k, n > 0real, k >= 0real;
    assert(k*(n-k)/n == kk*(n-k)) by(nonlinear_arith) requires kk == k/n, n > 0real;
    assert(kk*(n-k) >= 0real) by(nonlinear_arith) requires kk >= 0real, n - k >= 0real;
}

// Vieta: sum and product of (w_lo, w_hi); factorisation of G
pub proof fn lemma_vieta(n: real, k: real, z: real)
    requires n > 0real, 0real <= k <= n
    ensures
        w_lo(n,k,z) + w_hi(n,k,z) == 2real * wa(k,z) / wd(n,z),
        wd(n,z) * (w_lo(n,k,z) * w_hi(n,k,z)) == (k/n)*k,
{
    broadcast use ax_sqrt_plain;
    lemma_basic(n,k,z);
    let d = wd(n,z); let a = wa(k,z); let s = sqrt_spec(wrad(n,k,z)); let z2 = z*z;
    let c = a/d; let zd = z/d; let sp = zd*s;
    let lo = c - sp; let hi = c + sp;
    assert(lo == w_lo(n,k,z) && hi == w_hi(n,k,z));
    assert(lo + hi == 2real*c);
    assert(2real * a / d == 2real * c) by(nonlinear_arith) requires c == a/d, d > 0real;
    // product, via the numerators lod = lo*d, hid = hi*d
    assert(c*d == a) by(nonlinear_arith) requires c == a/d, d > 0real;
    assert(zd*d == z) by(nonlinear_arith) requires zd == z/d, d > 0real;
    let s2 = s*s;
    assert(s2 == wrad(n,k,z));
    let zs = z*s;
    let spd = sp*d;
    assert(spd == (zd*d)*s) by(nonlinear_arith) requires spd == sp*d, sp == zd*s;
    assert(spd == zs);
    let lod = lo*d; let hid = hi*d;
    assert(lod == c*d - spd) by(nonlinear_arith) requires lod == lo*d, lo == c - sp, spd == sp*d;
    assert(hid == c*d + spd) by(nonlinear_arith) requires hid == hi*d, hi == c + sp, spd == sp*d;
    assert(lod*hid == a*a - zs*zs) by(nonlinear_arith) requires lod == a - zs, hid == a + zs;
    assert(zs*zs == z2*s2) by(nonlinear_arith) requires zs == z*s, z2 == z*z, s2 == s*s;
    assert(d*d*(lo*hi) == lod*hid) by(nonlinear_arith) requires lod == lo*d, hid == hi*d;
    assert(d*d*(lo*hi) == a*a - z2*s2);
    // a^2 - z2*s2 = (k/n)*k*d
    let kk = k/n;
    assert(kk * n == k) by(nonlinear_arith) requires kk == k/n, n > 0real;
    assert(k*(n-k)/n == kk*(n-k)) by(nonlinear_arith) requires kk == k/n, n > 0real;
    assert(s2 == kk*(n-k) + z2/4real);
    let kn = kk*n; let kkk = kk*k;
    assert(z2*s2 == z2*kn - z2*kkk + z2*z2/4real) by(nonlinear_arith) requires s2 == kk*(n-k) + z2/4real, kn == kk*n, kkk == kk*k;
    assert(a*a == k*k + k*z2 + z2*z2/4real) by(nonlinear_arith) requires a == k + z2/2real;
    assert(kkk*n == k*k) by(nonlinear_arith) requires kkk == kk*k, kk*n == k;
    assert(z2*kn == z2*k) by(nonlinear_arith) requires kn == k;
    assert(kkk*d == kkk*n + kkk*z2) by(nonlinear_arith) requires d == n + z2;
    assert(a*a - z2*s2 == kkk*d);
    // divide by d
    let q = lo*hi;
    assert(d*(d*q) == d*kkk) by(nonlinear_arith) requires d*d*q == a*a - z2*s2, a*a - z2*s2 == kkk*d;
    assert(d*q == kkk) by(nonlinear_arith) requires d*(d*q) == d*kkk, d > 0real;
}

pub proof fn lemma_factor(n: real, k: real, z: real, p: real)
    requires n > 0real, 0real <= k <= n
    ensures wg(n,k,z,p) == wd(n,z) * ((p - w_lo(n,k,z)) * (p - w_hi(n,k,z)))
{
    lemma_vieta(n,k,z); lemma_basic(n,k,z);
    let d = wd(n,z); let lo = w_lo(n,k,z); let hi = w_hi(n,k,z); let a = wa(k,z);
    let sm = lo + hi; let pr = lo*hi;
    assert((p - lo)*(p - hi) == p*p - sm*p + pr) by(nonlinear_arith) requires sm == lo + hi, pr == lo*hi;
    assert(d*sm == 2real*a) by(nonlinear_arith) requires sm == 2real*a/d, d > 0real;
    assert(d*(p*p - sm*p + pr) == d*(p*p) - (d*sm)*p + d*pr) by(nonlinear_arith);
    assert(2real*a == 2real*k + z*z);
}

pub proof fn lemma_order(n: real, k: real, z: real)
    requires n > 0real, 0real <= k <= n, z >= 0real
    ensures w_lo(n,k,z) <= w_hi(n,k,z)
{
    broadcast use ax_sqrt_plain;
    lemma_basic(n,k,z);
    let d = wd(n,z); let s = sqrt_spec(wrad(n,k,z)); let zd = z/d;
    assert(zd >= 0real) by(nonlinear_arith) requires zd == z/d, d > 0real, z >= 0real;
    assert(zd*s >= 0real) by(nonlinear_arith) requires zd >= 0real, s >= 0real;
}

// k/n lies between the roots
pub proof fn lemma_phat_between(n: real, k: real, z: real)
    requires n > 0real, 0real <= k <= n, z >= 0real
    ensures w_lo(n,k,z) <= k/n <= w_hi(n,k,z)
{
    lemma_basic(n,k,z); lemma_order(n,k,z);
    let kk = k/n; let d = wd(n,z); let z2 = z*z;
    assert(kk * n == k) by(nonlinear_arith) requires kk == k/n, n > 0real;
    assert(0real <= kk <= 1real) by(nonlinear_arith) requires kk * n == k, n > 0real, 0real <= k <= n;
    // G(k, kk) = -z2 kk (1-kk)
    let kk2 = kk*kk;
    assert(d*kk2 == n*kk2 + z2*kk2) by(nonlinear_arith) requires d == n + z2;
    assert(n*kk2 == k*kk) by(nonlinear_arith) requires kk2 == kk*kk, kk*n == k;
    assert(wg(n,k,z,kk) == d*kk2 - (2real*k + z2)*kk + kk*k);
    assert((2real*k + z2)*kk == 2real*(k*kk) + z2*kk) by(nonlinear_arith);
    assert(wg(n,k,z,kk) == z2*kk2 - z2*kk) by(nonlinear_arith)
        requires wg(n,k,z,kk) == d*kk2 - (2real*k + z2)*kk + kk*k, d*kk2 == n*kk2 + z2*kk2, n*kk2 == k*kk, (2real*k + z2)*kk == 2real*(k*kk) + z2*kk;
    assert(kk2 <= kk) by(nonlinear_arith) requires kk2 == kk*kk, 0real <= kk <= 1real;
    assert(z2 >= 0real);
    assert(z2*kk2 <= z2*kk) by(nonlinear_arith) requires kk2 <= kk, z2 >= 0real;
    lemma_factor(n,k,z,kk);
    lemma_quad_between(d, w_lo(n,k,z), w_hi(n,k,z), kk);
}

// monotonicity in k of the lower bound
pub open spec fn score(n: real, k: real, z: real, p: real) -> real { n*((p - k/n)*(p - k/n)) - (z*z)*(p*(1real - p)) }
pub proof fn lemma_score_form(n: real, k: real, z: real, p: real)
    requires n > 0real
    ensures wg(n,k,z,p) == score(n,k,z,p)
{
    let kk = k/n; let z2 = z*z; let d = wd(n,z); let pp = p*p;
    assert(kk*n == k) by(nonlinear_arith) requires kk == k/n, n > 0real;
    assert((p - kk)*(p - kk) == pp - 2real*(kk*p) + kk*kk) by(nonlinear_arith) requires pp == p*p;
    assert(n*(pp - 2real*(kk*p) + kk*kk) == n*pp - 2real*((kk*n)*p) + (kk*n)*kk) by(nonlinear_arith);
    assert(p*(1real - p) == p - pp) by(nonlinear_arith) requires pp == p*p;
    assert(z2*(p - pp) == z2*p - z2*pp) by(nonlinear_arith);
    assert(d*pp == n*pp + z2*pp) by(nonlinear_arith) requires d == n + z2;
    assert((2real*k + z2)*p == 2real*(k*p) + z2*p) by(nonlinear_arith);
    let knp = (kk*n)*p; let knk = (kk*n)*kk;
    assert(knp == k*p) by(nonlinear_arith) requires knp == (kk*n)*p, kk*n == k;
    assert(knk == kk*k) by(nonlinear_arith) requires knk == (kk*n)*kk, kk*n == k;
    assert(score(n,k,z,p) == n*((p - kk)*(p - kk)) - z2*(p*(1real - p)));
    assert(score(n,k,z,p) == (n*pp - 2real*knp + knk) - (z2*p - z2*pp));
    assert(wg(n,k,z,p) == d*pp - (2real*k + z2)*p + kk*k);
}
// the two bounds are roots of the score equation
pub proof fn lemma_roots(n: real, k: real, z: real)
    requires n > 0real, 0real <= k <= n
    ensures score(n,k,z,w_lo(n,k,z)) == 0real, score(n,k,z,w_hi(n,k,z)) == 0real
{
    let lo = w_lo(n,k,z); let hi = w_hi(n,k,z); let d = wd(n,z);
    lemma_factor(n,k,z,lo); lemma_factor(n,k,z,hi);
    lemma_score_form(n,k,z,lo); lemma_score_form(n,k,z,hi);
    assert(d*((lo - lo)*(lo - hi)) == 0real) by(nonlinear_arith);
    assert(d*((hi - lo)*(hi - hi)) == 0real) by(nonlinear_arith);
}

// ---- mirror symmetry ----
pub proof fn lemma_mirror(n: real, k: real, z: real)
    requires n > 0real, 0real <= k <= n
    ensures w_lo(n,n-k,z) == 1real - w_hi(n,k,z), w_hi(n,n-k,z) == 1real - w_lo(n,k,z)
{
    lemma_basic(n,k,z);
    let d = wd(n,z); let a = wa(k,z); let a2 = wa(n-k,z);
    assert(a2 == d - a);
    assert(a2/d == 1real - a/d) by(nonlinear_arith) requires a2 == d - a, d > 0real;
    let j = n - k;
    assert(j*(n-j)/n == k*(n-k)/n) by(nonlinear_arith) requires j == n - k, n > 0real;
    assert(wrad(n,n-k,z) == wrad(n,k,z));
}

pub proof fn lemma_quad_outside_weak(d: real, l: real, u: real, p: real)
    requires d > 0real, l <= u, d * ((p - l) * (p - u)) >= 0real
    ensures p <= l || p >= u
{
    let a = p - l; let b = p - u;
    assert(a * b >= 0real) by(nonlinear_arith) requires d > 0real, d * (a * b) >= 0real;
    assert(!(a > 0real && b < 0real)) by(nonlinear_arith) requires a * b >= 0real;
}

// ---- bounds stay in [0,1] on the Wilson domain ----
pub proof fn lemma_unit_interval(n: real, k: real, z: real)
    requires n > 0real, 0real < k < n, z >= 0real
    ensures 0real <= w_lo(n,k,z), w_hi(n,k,z) <= 1real
{
    lemma_basic(n,k,z); lemma_order(n,k,z); lemma_phat_between(n,k,z);
    let d = wd(n,z); let lo = w_lo(n,k,z); let hi = w_hi(n,k,z); let kk = k/n;
    assert(kk*n == k) by(nonlinear_arith) requires kk == k/n, n > 0real;
    assert(0real < kk < 1real) by(nonlinear_arith) requires kk*n == k, n > 0real, 0real < k < n;
    // p = 0
    lemma_factor(n,k,z,0real);
    let w0 = wg(n,k,z,0real);
    assert(w0 == d*(0real*0real) - (2real*k + z*z)*0real + kk*k);
    assert(w0 == kk*k) by(nonlinear_arith) requires w0 == d*(0real*0real) - (2real*k + z*z)*0real + kk*k;
    assert(kk*k >= 0real) by(nonlinear_arith) requires kk > 0real, k > 0real;
    lemma_quad_outside_weak(d, lo, hi, 0real);
    // p = 1
    lemma_factor(n,k,z,1real);
    lemma_score_form(n,k,z,1real);
    let e = 1real - kk;
    assert(1real*(1real - 1real) == 0real);
    assert((z*z)*(1real*(1real - 1real)) == 0real) by(nonlinear_arith);
    assert(score(n,k,z,1real) == n*((1real - kk)*(1real - kk)) - (z*z)*(1real*(1real - 1real)));
    assert(score(n,k,z,1real) == n*(e*e));
    assert(n*(e*e) >= 0real) by(nonlinear_arith) requires n > 0real;
    lemma_quad_outside_weak(d, lo, hi, 1real);
}

// ---- widening with z (nesting in the level, given a monotone quantile) ----
pub proof fn lemma_z_monotone(n: real, k: real, z1: real, z2: real)
    requires n > 0real, 0real < k < n, 0real <= z1 <= z2
    ensures w_lo(n,k,z2) <= w_lo(n,k,z1), w_hi(n,k,z1) <= w_hi(n,k,z2)
{
    lemma_basic(n,k,z2); lemma_order(n,k,z2); lemma_order(n,k,z1);
    lemma_unit_interval(n,k,z1); lemma_roots(n,k,z1);
    let lo1 = w_lo(n,k,z1); let hi1 = w_hi(n,k,z1); let d2 = wd(n,z2);
    let q1 = z1*z1; let q2 = z2*z2;
    assert(q1 <= q2) by(nonlinear_arith) requires q1 == z1*z1, q2 == z2*z2, 0real <= z1 <= z2;
    // at p in {lo1, hi1}: score_z2(p) = score_z1(p) - (q2-q1) p(1-p) <= 0
    assert(0real <= lo1 <= hi1 <= 1real);
    let u = lo1*(1real - lo1); let v = hi1*(1real - hi1);
    assert(u >= 0real) by(nonlinear_arith) requires u == lo1*(1real - lo1), 0real <= lo1 <= 1real;
    assert(v >= 0real) by(nonlinear_arith) requires v == hi1*(1real - hi1), 0real <= hi1 <= 1real;
    let m1 = n*((lo1 - k/n)*(lo1 - k/n)); let m2 = n*((hi1 - k/n)*(hi1 - k/n));
    assert(score(n,k,z1,lo1) == m1 - q1*u);
    assert(score(n,k,z2,lo1) == m1 - q2*u);
    assert(q2*u >= q1*u) by(nonlinear_arith) requires q1 <= q2, u >= 0real;
    assert(score(n,k,z2,lo1) <= 0real);
    assert(score(n,k,z1,hi1) == m2 - q1*v);
    assert(score(n,k,z2,hi1) == m2 - q2*v);
    assert(q2*v >= q1*v) by(nonlinear_arith) requires q1 <= q2, v >= 0real;
    assert(score(n,k,z2,hi1) <= 0real);
    lemma_score_form(n,k,z2,lo1); lemma_score_form(n,k,z2,hi1);
    lemma_factor(n,k,z2,lo1); lemma_factor(n,k,z2,hi1);
    lemma_quad_between(d2, w_lo(n,k,z2), w_hi(n,k,z2), lo1);
    lemma_quad_between(d2, w_lo(n,k,z2), w_hi(n,k,z2), hi1);
}

// ---- monotonicity in k of the upper bound, by mirror ----
