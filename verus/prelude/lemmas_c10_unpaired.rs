// C10 for the unpaired comparison: the dof does not depend on the confidence; bounds are centre -/+ crit * se with se >= 0
pub proof fn lemma_unpaired_ci_coherent(a: Confidence, b: Confidence, sa: real, qa: real, na: nat, sb: real, qb: real, nb: nat)
    requires same_kind(a, b), conf_valid(a), conf_valid(b), conf_level(a) <= conf_level(b), na >= 2, nb >= 2,
    ensures unpaired_lo(b, sa, qa, na, sb, qb, nb) <= unpaired_lo(a, sa, qa, na, sb, qb, nb),
            unpaired_hi(a, sa, qa, na, sb, qb, nb) <= unpaired_hi(b, sa, qa, na, sb, qb, nb),
            conf_quantile(a) >= 0.5real ==> unpaired_lo(a, sa, qa, na, sb, qb, nb) <= mean_of(sa, na) - mean_of(sb, nb) <= unpaired_hi(a, sa, qa, na, sb, qb, nb),
{
    let x = welch_x(sa, qa, na); let y = welch_x(sb, qb, nb);
    lemma_rdiv_nonneg(var_of(sa, qa, na), na as real);
    lemma_rdiv_nonneg(var_of(sb, qb, nb), nb as real);
    assert(x >= 0real && y >= 0real);
    ax_sqrt(x + y);
    lemma_sqrt_zero(x + y);
    let dof = welch_dof_used(x, na, y, nb);
    if welch_se(x, y) != 0real { lemma_welch_dof_pos(x, na, y, nb); }
    assert(dof > 0real);
    lemma_crit_facts(a, b, dof);
    lemma_symmetric_interval_monotone(mean_of(sa, na) - mean_of(sb, nb), crit(a, dof), crit(b, dof), welch_se(x, y));
}
