// C10 for the mean producers: arithmetic (hence paired), geometric, harmonic
pub proof fn lemma_se_nonneg(s: real, q: real, n: nat)
    requires n >= 2,
    ensures se_of(s, q, n) >= 0real,
{
    let v = var_of(s, q, n);
    assert(v >= 0real);
    ax_sqrt(v);
    lemma_sqrt_pos(n as real);
    lemma_rdiv_nonneg(sqrt_spec(v), sqrt_spec(n as real));
}
pub proof fn lemma_mean_ci_coherent(a: Confidence, b: Confidence, s: real, q: real, n: nat)
    requires same_kind(a, b), conf_valid(a), conf_valid(b), conf_level(a) <= conf_level(b), n >= 2,
    ensures
        // nesting: raising the level never shrinks the interval
        mean_ci_lo(b, s, q, n) <= mean_ci_lo(a, s, q, n), mean_ci_hi(a, s, q, n) <= mean_ci_hi(b, s, q, n),
        // the point estimate is inside for a two-sided interval or a one-sided one at level >= 1/2
        conf_quantile(a) >= 0.5real ==> mean_ci_lo(a, s, q, n) <= mean_of(s, n) <= mean_ci_hi(a, s, q, n),
        // geometric: exp is increasing, so the same holds after back-transformation
        exp_spec(mean_ci_lo(b, s, q, n)) <= exp_spec(mean_ci_lo(a, s, q, n)), exp_spec(mean_ci_hi(a, s, q, n)) <= exp_spec(mean_ci_hi(b, s, q, n)),
        conf_quantile(a) >= 0.5real ==> exp_spec(mean_ci_lo(a, s, q, n)) <= exp_spec(mean_of(s, n)) <= exp_spec(mean_ci_hi(a, s, q, n)),
{
    let dof = (n - 1) as real;
    lemma_crit_facts(a, b, dof);
    lemma_se_nonneg(s, q, n);
    lemma_symmetric_interval_monotone(mean_of(s, n), crit(a, dof), crit(b, dof), se_of(s, q, n));
    ax_exp_mono(mean_ci_lo(b, s, q, n), mean_ci_lo(a, s, q, n));
    ax_exp_mono(mean_ci_hi(a, s, q, n), mean_ci_hi(b, s, q, n));
    if conf_quantile(a) >= 0.5real {
        ax_exp_mono(mean_ci_lo(a, s, q, n), mean_of(s, n));
        ax_exp_mono(mean_of(s, n), mean_ci_hi(a, s, q, n));
    }
}
// one-sided at L = two-sided at 2L - 1 (same finite bound), for every producer built on mean_ci_lo / mean_ci_hi
pub proof fn lemma_mean_ci_one_sided_matches_two_sided(l: R, s: real, q: real, n: nat)
    requires 0.5real < l.v() < 1real,
    ensures ({
        let t = Confidence::TwoSided(r_of(2real * l.v() - 1real));
        mean_ci_lo(Confidence::UpperOneSided(l), s, q, n) == mean_ci_lo(t, s, q, n) && mean_ci_hi(Confidence::LowerOneSided(l), s, q, n) == mean_ci_hi(t, s, q, n)
    }),
{ lemma_one_sided_is_two_sided_at_2l_minus_1(l); }
// harmonic: x -> 1/x is decreasing on the positives; whenever the reciprocal-space bounds are strictly positive the
// back-transformed interval nests and contains the harmonic mean
pub proof fn lemma_recip_antitone(x: real, y: real)
    requires 0real < x <= y,
    ensures recip(y) <= recip(x), recip(x) > 0real,
{
    assert(1real / y <= 1real / x) by(nonlinear_arith) requires 0real < x <= y;
    assert(1real / x > 0real) by(nonlinear_arith) requires 0real < x;
}
pub proof fn lemma_harmonic_ci_coherent(a: Confidence, b: Confidence, s: real, q: real, n: nat)
    requires same_kind(a, b), conf_valid(a), conf_valid(b), conf_level(a) <= conf_level(b), n >= 2,
             // "whenever the reciprocal-space bound is strictly positive" (C05)
             mean_ci_lo(conf_flipped(b), s, q, n) > 0real, mean_ci_hi(conf_flipped(a), s, q, n) > 0real,
    ensures
        recip(mean_ci_hi(conf_flipped(b), s, q, n)) <= recip(mean_ci_hi(conf_flipped(a), s, q, n)),
        recip(mean_ci_lo(conf_flipped(a), s, q, n)) <= recip(mean_ci_lo(conf_flipped(b), s, q, n)),
        conf_quantile(a) >= 0.5real ==> recip(mean_ci_hi(conf_flipped(a), s, q, n)) <= recip(mean_of(s, n)) <= recip(mean_ci_lo(conf_flipped(a), s, q, n)),
{
    let fa = conf_flipped(a);
    let fb = conf_flipped(b);
    assert(conf_quantile(fa) == conf_quantile(a) && conf_quantile(fb) == conf_quantile(b) && conf_level(fa) == conf_level(a) && conf_level(fb) == conf_level(b));
    lemma_mean_ci_coherent(fa, fb, s, q, n);
    lemma_recip_antitone(mean_ci_lo(fb, s, q, n), mean_ci_lo(fa, s, q, n));
    lemma_recip_antitone(mean_ci_hi(fa, s, q, n), mean_ci_hi(fb, s, q, n));
    if conf_quantile(a) >= 0.5real {
        lemma_recip_antitone(mean_ci_lo(fa, s, q, n), mean_of(s, n));
        lemma_recip_antitone(mean_of(s, n), mean_ci_hi(fa, s, q, n));
    }
}
