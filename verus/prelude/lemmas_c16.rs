// ===== C16: equivariance of the computed formula over the reals (scaling, negation, shift; reordering is lemma_sum_swap_adjacent) =====
// -- data level: sums of transformed data
pub open spec fn affine(s: Seq<R>, c: real, d: real) -> Seq<R> { Seq::new(s.len(), |i: int| r_of(c * s[i].v() + d)) }
pub proof fn lemma_sums_affine(s: Seq<R>, c: real, d: real, k: int)
    requires 0 <= k <= s.len(),
    ensures sum_to(affine(s, c, d), k) == c * sum_to(s, k) + (k as real) * d,
            sumsq_to(affine(s, c, d), k) == c * c * sumsq_to(s, k) + 2real * c * d * sum_to(s, k) + (k as real) * d * d,
    decreases k,
{
    if k > 0 {
        lemma_sums_affine(s, c, d, k - 1);
        let x = s[k - 1].v();
        let y = affine(s, c, d)[k - 1].v();
        ax_r_of(c * x + d);
        assert(y == c * x + d);
        let (s0, q0, k0, k1) = (sum_to(s, k - 1), sumsq_to(s, k - 1), (k - 1) as real, k as real);
        let cx = c * x; let cc = c * c; let xx = x * x; let cd = c * d; let dd = d * d;
        assert(c * (s0 + x) == c * s0 + cx) by(nonlinear_arith) requires cx == c * x;
        assert(k1 * d == k0 * d + d) by(nonlinear_arith) requires k1 == k0 + 1real;
        assert(rmul(y, y) == y * y && rmul(x, x) == xx);
        assert(y * y == cc * xx + 2real * (cd * x) + dd) by(nonlinear_arith) requires y == c * x + d, cc == c * c, xx == x * x, cd == c * d, dd == d * d;
        assert(cc * (q0 + xx) == cc * q0 + cc * xx) by(nonlinear_arith);
        assert(2real * c * d * (s0 + x) == 2real * c * d * s0 + 2real * (cd * x)) by(nonlinear_arith) requires cd == c * d;
        assert(k1 * d * d == k0 * d * d + dd) by(nonlinear_arith) requires k1 == k0 + 1real, dd == d * d;
        assert(sum_to(s, k) == s0 + x && sumsq_to(s, k) == q0 + xx);
    } else {
        assert(c * 0real + 0real * d == 0real) by(nonlinear_arith);
        assert(c * c * 0real + 2real * c * d * 0real + 0real * d * d == 0real) by(nonlinear_arith);
    }
}
// -- view level: how mean, variance and standard error react
pub proof fn lemma_sqrt_scale(c: real, v: real)
    requires c >= 0real, v >= 0real,
    ensures sqrt_spec(c * c * v) == c * sqrt_spec(v),
{
    let r = sqrt_spec(v);
    ax_sqrt(v);
    let w = c * c * v;
    assert(w >= 0real) by(nonlinear_arith) requires c >= 0real, v >= 0real, w == c * c * v;
    ax_sqrt(w);
    let t = sqrt_spec(w);
    let u = c * r;
    assert(rmul(r, r) == r * r && rmul(t, t) == t * t);
    assert(u * u == w) by(nonlinear_arith) requires u == c * r, r * r == v, w == c * c * v;
    assert(u >= 0real) by(nonlinear_arith) requires u == c * r, c >= 0real, r >= 0real;
    // two non-negative numbers with the same square are equal
    assert(t == u) by(nonlinear_arith) requires t >= 0real, u >= 0real, t * t == u * u;
}
pub proof fn lemma_view_affine(s: real, q: real, n: nat, c: real, d: real)
    requires n >= 2,
    ensures ({
        let nr = n as real;
        let (s2, q2) = (c * s + nr * d, c * c * q + 2real * c * d * s + nr * d * d);
        &&& mean_of(s2, n) == c * mean_of(s, n) + d
        &&& var_raw(s2, q2, n) == c * c * var_raw(s, q, n)
    }),
{
    let nr = n as real;
    let m = s / nr;
    let (s2, q2) = (c * s + nr * d, c * c * q + 2real * c * d * s + nr * d * d);
    let m2 = s2 / nr;
    assert(m * nr == s) by(nonlinear_arith) requires m == s / nr, nr >= 2real;
    assert(m2 * nr == s2) by(nonlinear_arith) requires m2 == s2 / nr, nr >= 2real;
    let cm = c * m;
    assert((cm + d) * nr == s2) by(nonlinear_arith) requires cm == c * m, m * nr == s, s2 == c * s + nr * d;
    assert(m2 == cm + d) by(nonlinear_arith) requires m2 * nr == s2, (cm + d) * nr == s2, nr >= 2real;
    // q2 - m2*s2 = c^2 (q - m s)
    let ms = m * s;
    let cc = c * c;
    let cds = c * d * s;
    let ta = c * s;
    let tb = nr * d;
    assert(m2 * s2 == cm * ta + cm * tb + d * ta + d * tb) by(nonlinear_arith) requires m2 == cm + d, s2 == ta + tb;
    assert(cm * ta == cc * ms) by(nonlinear_arith) requires cm == c * m, ta == c * s, ms == m * s, cc == c * c;
    let mn = m * nr;
    assert(cm * tb == c * mn * d) by(nonlinear_arith) requires cm == c * m, tb == nr * d, mn == m * nr;
    assert(c * mn * d == cds) by(nonlinear_arith) requires mn == s, cds == c * d * s;
    assert(d * ta == cds) by(nonlinear_arith) requires ta == c * s, cds == c * d * s;
    assert(d * tb == nr * d * d) by(nonlinear_arith) requires tb == nr * d;
    assert(m2 * s2 == cc * ms + 2real * cds + nr * d * d);
    assert(2real * c * d * s == 2real * cds) by(nonlinear_arith) requires cds == c * d * s;
    assert(q2 - m2 * s2 == cc * q - cc * ms);
    assert(cc * q - cc * ms == cc * (q - ms)) by(nonlinear_arith);
    let dn = (n - 1) as real;
    assert(dn >= 1real);
    let a = q - ms;
    assert((cc * a) / dn == cc * (a / dn)) by(nonlinear_arith) requires dn >= 1real;
    assert(rmul(m2, s2) == m2 * s2 && rmul(m, s) == ms);
}
// arithmetic-mean interval under x -> c x + d with c > 0: every bound is mapped by the same affine function (scaling, shift)
pub proof fn lemma_mean_ci_affine(cf: Confidence, s: real, q: real, n: nat, c: real, d: real)
    requires n >= 2, c > 0real,
    ensures ({
        let nr = n as real;
        let (s2, q2) = (c * s + nr * d, c * c * q + 2real * c * d * s + nr * d * d);
        mean_ci_lo(cf, s2, q2, n) == c * mean_ci_lo(cf, s, q, n) + d && mean_ci_hi(cf, s2, q2, n) == c * mean_ci_hi(cf, s, q, n) + d
    }),
{
    let nr = n as real;
    let (s2, q2) = (c * s + nr * d, c * c * q + 2real * c * d * s + nr * d * d);
    lemma_view_affine(s, q, n, c, d);
    let v = var_of(s, q, n);
    let v2 = var_of(s2, q2, n);
    let cc = c * c;
    assert(cc > 0real) by(nonlinear_arith) requires c > 0real, cc == c * c;
    assert(v2 == cc * v) by {
        let r = var_raw(s, q, n);
        if r < 0real { assert(cc * r < 0real) by(nonlinear_arith) requires cc > 0real, r < 0real; assert(cc * 0real == 0real) by(nonlinear_arith); }
        else { assert(cc * r >= 0real) by(nonlinear_arith) requires cc > 0real, r >= 0real; }
    }
    assert(v >= 0real);
    lemma_sqrt_scale(c, v);
    let sd = sqrt_spec(v);
    let rn = sqrt_spec(nr);
    lemma_sqrt_pos(nr);
    assert(sd_of(s2, q2, n) == c * sd);
    assert((c * sd) / rn == c * (sd / rn)) by(nonlinear_arith) requires rn > 0real;
    let se = se_of(s, q, n);
    assert(se_of(s2, q2, n) == c * se);
    let k = crit(cf, (n - 1) as real);
    assert(rmul(k, c * se) == c * rmul(k, se)) by(nonlinear_arith);
    let m = mean_of(s, n);
    let ks = rmul(k, se);
    assert(c * (m - ks) + d == (c * m + d) - c * ks) by(nonlinear_arith);
    assert(c * (m + ks) + d == (c * m + d) + c * ks) by(nonlinear_arith);
}
// negation mirrors the interval and exchanges upper / lower one-sidedness
pub proof fn lemma_mean_ci_negate(cf: Confidence, s: real, q: real, n: nat)
    requires n >= 2,
    ensures mean_ci_lo(cf, -s, q, n) == -mean_ci_hi(conf_flipped(cf), s, q, n), mean_ci_hi(cf, -s, q, n) == -mean_ci_lo(conf_flipped(cf), s, q, n),
{
    let nr = n as real;
    let m = s / nr;
    assert((-s) / nr == -m) by(nonlinear_arith) requires m == s / nr, nr >= 2real;
    assert((-m) * (-s) == m * s) by(nonlinear_arith);
    assert(rmul(-m, -s) == rmul(m, s));
    assert(var_raw(-s, q, n) == var_raw(s, q, n));
    assert(conf_quantile(conf_flipped(cf)) == conf_quantile(cf));
}
