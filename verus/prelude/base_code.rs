// ===== base items every ideal-real unit needs: errors, Confidence, Interval constructors, stats::interval_bounds =====
//@item src/error.rs enum CIError
//@item src/error.rs enum IntervalError
//@item src/error.rs type CIResult

// std: Iterator::count on a slice iterator consumes what remains (ASSUMED specification of a std function; vstd specifies next() but not count())
pub assume_specification<'a, T> [<core::slice::Iter<'a, T> as Iterator>::count] (it: core::slice::Iter<'a, T>) -> (r: usize)
    ensures r as int == vstd::std_specs::iter::IteratorSpec::remaining(&it).len();

// thiserror's generated `From<IntervalError> for CIError` behind `.map_err(|e| e.into())` (rewrite rule R5)
pub trait MapErrInto<T>: Sized {
    spec fn mapped(self) -> CIResult<T>;
    fn map_err_into(self) -> (r: CIResult<T>) ensures r == self.mapped();
}
impl<T> MapErrInto<T> for Result<T, IntervalError> {
    open spec fn mapped(self) -> CIResult<T> { match self { Ok(x) => Ok(x), Err(e) => Err(CIError::IntervalError(e)) } }
    #[verifier::external_body]
    fn map_err_into(self) -> (r: CIResult<T>) { match self { Ok(x) => Ok(x), Err(e) => Err(CIError::IntervalError(e)) } }
}
// error.rs FloatConversion::try_f64 / FloatReverseConversion::convert: identities in the ideal model
impl R {
    #[verifier::external_body]
    pub fn try_f64(&self, var_name: &str) -> (r: CIResult<R>) ensures r == Ok::<R, CIError>(*self) { Ok(*self) }
}
pub trait ConvertOpt: Sized { fn convert(&self, var_name: &str) -> (r: CIResult<R>) ensures self.conv_ok(r); spec fn conv_ok(&self, r: CIResult<R>) -> bool; }
impl ConvertOpt for Option<R> {
    open spec fn conv_ok(&self, r: CIResult<R>) -> bool { *self is Some ==> r == Ok::<R, CIError>(self->Some_0) }
    #[verifier::external_body]
    fn convert(&self, var_name: &str) -> (r: CIResult<R>) { unimplemented!() }
}

//@item src/confidence.rs enum Confidence derive=Clone,Copy
//@impl src/confidence.rs impl Confidence
//@fn new ret r
//@| requires 0real < confidence.v() < 1real,
//@| ensures r == Confidence::TwoSided(confidence),
//@fn new_two_sided ret r
//@| requires 0real < confidence.v() < 1real,
//@| ensures r == Confidence::TwoSided(confidence),
//@fn new_upper ret r
//@| requires 0real < confidence.v() < 1real,
//@| ensures r == Confidence::UpperOneSided(confidence),
//@fn new_lower ret r
//@| requires 0real < confidence.v() < 1real,
//@| ensures r == Confidence::LowerOneSided(confidence),
//@fn percent ret r
//@| ensures r.v() == rmul(conf_level(*self), 100real),
//@fn is_two_sided ret r
//@| ensures r == (*self is TwoSided),
//@fn is_one_sided ret r
//@| ensures r == !(*self is TwoSided),
//@fn is_upper ret r
//@| ensures r == (*self is UpperOneSided),
//@fn is_lower ret r
//@| ensures r == (*self is LowerOneSided),
//@fn level ret r
//@| ensures r.v() == conf_level(*self),
//@fn flipped ret r
//@| ensures r == conf_flipped(*self),
//@fn quantile ret r
//@| ensures r.v() == conf_quantile(*self),
//@endimpl

//@item src/interval.rs enum Interval
//@impl src/interval.rs impl<T: PartialOrd> Interval<T>
//@fn new ret r
//@| requires T::obeys_partial_cmp_spec(),
//@| ensures le(low, high) ==> r == Ok::<Self, IntervalError>(Interval::TwoSided(low, high)),
//@|         !le(low, high) ==> r is Err && r->Err_0 is InvalidBounds,
//@fn new_upper ret r
//@| ensures r == Interval::UpperOneSided(low),
//@fn new_lower ret r
//@| ensures r == Interval::LowerOneSided(high),
//@endimpl
//@impl src/interval.rs impl<T: num_traits::Float> Interval<T>
//@fn low_f ret r
//@| ensures match *self { Interval::TwoSided(l, _) => r == l, Interval::UpperOneSided(l) => r == l, Interval::LowerOneSided(_) => true },
//@fn high_f ret r
//@| ensures match *self { Interval::TwoSided(_, h) => r == h, Interval::LowerOneSided(h) => r == h, Interval::UpperOneSided(_) => true },
//@endimpl

// statrs, the ASSUMED layer (trusted; DESIGN 9.3): constructors reject non-positive / NaN parameters, inverse_cdf is the
// quantile function of the distribution.  z_value / t_value themselves are extracted from src/stats.rs and verified against it.
pub struct Normal { mean: R, std_dev: R }
pub struct StudentsT { location: R, scale: R, freedom: R }
#[derive(Debug)]
pub enum NormalError { MeanInvalid, StandardDeviationInvalid }
#[derive(Debug)]
pub enum StudentsTError { LocationInvalid, ScaleInvalid, FreedomInvalid }
impl Normal {
    pub closed spec fn standard(self) -> bool { self.mean.v() == 0real && self.std_dev.v() == 1real }
    #[verifier::external_body]
    pub fn new(mean: R, std_dev: R) -> (r: Result<Normal, NormalError>)
        ensures std_dev.v() > 0real <==> r is Ok, r is Ok ==> (r->Ok_0.standard() <==> (mean.v() == 0real && std_dev.v() == 1real)),
    { unimplemented!() }
    // ContinuousCDF::inverse_cdf; statrs asserts 0 <= p <= 1
    #[verifier::external_body]
    pub fn inverse_cdf(&self, p: R) -> (r: R)
        requires 0real <= p.v() <= 1real,
        ensures self.standard() ==> r.v() == normal_quantile(p.v()),
    { unimplemented!() }
}
impl StudentsT {
    pub closed spec fn standard(self) -> bool { self.location.v() == 0real && self.scale.v() == 1real }
    pub closed spec fn dof(self) -> real { self.freedom.v() }
    #[verifier::external_body]
    pub fn new(location: R, scale: R, freedom: R) -> (r: Result<StudentsT, StudentsTError>)
        ensures (scale.v() > 0real && freedom.v() > 0real) <==> r is Ok,
                r is Ok ==> r->Ok_0.dof() == freedom.v() && (r->Ok_0.standard() <==> (location.v() == 0real && scale.v() == 1real)),
    { unimplemented!() }
    #[verifier::external_body]
    pub fn inverse_cdf(&self, p: R) -> (r: R)
        requires 0real <= p.v() <= 1real,
        ensures self.standard() ==> r.v() == t_quantile(p.v(), self.dof()),
    { unimplemented!() }
}
// further special functions of statrs / core a maintainer might reach for (MODEL: each computes the mathematical function of
// the same name, an uninterpreted spec function constrained only by true mathematics; prelude/real.rs)
#[verifier::external_body]
pub fn erf_inv(x: R) -> (r: R) ensures r.v() == erf_inv_spec(x.v()) { unimplemented!() }
#[verifier::external_body]
pub fn erf(x: R) -> (r: R) ensures r.v() == erf_spec(x.v()) { unimplemented!() }
#[allow(non_snake_case)]
#[verifier::external_body]
pub fn SQRT_2_const() -> (r: R) ensures r.v() == sqrt_spec(2real) { unimplemented!() }
//@freefn src/stats.rs z_value ret z vis pub
//@| requires conf_valid(confidence),
//@| ensures z.v() == normal_quantile(conf_quantile(confidence)),
//@freefn src/stats.rs t_value ret t vis pub
//@| requires conf_valid(confidence), degrees_of_freedom.v() > 0real,
//@| ensures t.v() == t_quantile(conf_quantile(confidence), degrees_of_freedom.v()),
//@const src/stats.rs POPULATION_LIMIT | ensures r.v() == 100000real,
//@freefn src/stats.rs interval_bounds ret r vis pub
//@| requires conf_valid(confidence), degrees_of_freedom.v() > 0real,
//@| ensures r.0.v() == mean.v() - rmul(crit(confidence, degrees_of_freedom.v()), std_err_mean.v()),
//@|         r.1.v() == mean.v() + rmul(crit(confidence, degrees_of_freedom.v()), std_err_mean.v()),
