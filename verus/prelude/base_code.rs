// ===== base items every ideal-real unit needs: errors, Confidence, Interval constructors, stats::interval_bounds =====
//@item src/error.rs enum CIError
//@item src/error.rs enum IntervalError
//@item src/error.rs type CIResult

// thiserror's generated `From<IntervalError> for CIError` behind `.map_err(|e| e.into())` (rewrite rule R5)
pub trait MapErrInto<T>: Sized {
    spec fn mapped(self) -> CIResult<T>;
    fn map_err_into(self) -> (r: CIResult<T>) ensures r == self.mapped();
}
impl<T> MapErrInto<T> for Result<T, IntervalError> {
    open spec fn mapped(self) -> CIResult<T> { match self { Ok(x) => Ok(x), Err(e) => Err(CIError::IntervalError(e)) } }
    #[verifier::external_body]
    fn map_err_into(self) -> (r: CIResult<T>) { match self { Ok(x) => Ok(x), Err(e) => Err(CIError::IntervalError(e)) } }
}
// error.rs FloatConversion::try_f64 / FloatReverseConversion::convert: identities in the ideal model
impl R {
    #[verifier::external_body]
    pub fn try_f64(&self, var_name: &str) -> (r: CIResult<R>) ensures r == Ok::<R, CIError>(*self) { Ok(*self) }
}
pub trait ConvertOpt: Sized { fn convert(&self, var_name: &str) -> (r: CIResult<R>) ensures self.conv_ok(r); spec fn conv_ok(&self, r: CIResult<R>) -> bool; }
impl ConvertOpt for Option<R> {
    open spec fn conv_ok(&self, r: CIResult<R>) -> bool { *self is Some ==> r == Ok::<R, CIError>(self->Some_0) }
    #[verifier::external_body]
    fn convert(&self, var_name: &str) -> (r: CIResult<R>) { unimplemented!() }
}

//@item src/confidence.rs enum Confidence derive=Clone,Copy
//@impl src/confidence.rs impl Confidence
//@fn level ret r
//@| ensures r.v() == conf_level(*self),
//@fn flipped ret r
//@| ensures r == conf_flipped(*self),
//@fn quantile ret r
//@| ensures r.v() == conf_quantile(*self),
//@endimpl

//@item src/interval.rs enum Interval
//@impl src/interval.rs impl<T: PartialOrd> Interval<T>
//@fn new ret r
//@| requires T::obeys_partial_cmp_spec(),
//@| ensures le(low, high) ==> r == Ok::<Self, IntervalError>(Interval::TwoSided(low, high)),
//@|         !le(low, high) ==> r is Err && r->Err_0 is InvalidBounds,
//@fn new_upper ret r
//@| ensures r == Interval::UpperOneSided(low),
//@fn new_lower ret r
//@| ensures r == Interval::LowerOneSided(high),
//@endimpl
//@impl src/interval.rs impl<T: num_traits::Float> Interval<T>
//@fn low_f ret r
//@| ensures match *self { Interval::TwoSided(l, _) => r == l, Interval::UpperOneSided(l) => r == l, Interval::LowerOneSided(_) => true },
//@fn high_f ret r
//@| ensures match *self { Interval::TwoSided(_, h) => r == h, Interval::LowerOneSided(h) => r == h, Interval::UpperOneSided(_) => true },
//@endimpl

// statrs entry points: ASSUMED contracts (trusted; see DESIGN 9.3).  t_value panics iff dof is not > 0.
#[verifier::external_body]
pub fn z_value(confidence: Confidence) -> (z: R)
    requires conf_valid(confidence),
    ensures z.v() == normal_quantile(conf_quantile(confidence)),
{ unimplemented!() }
#[verifier::external_body]
pub fn t_value(confidence: Confidence, degrees_of_freedom: R) -> (t: R)
    requires conf_valid(confidence), degrees_of_freedom.v() > 0real,
    ensures t.v() == t_quantile(conf_quantile(confidence), degrees_of_freedom.v()),
{ unimplemented!() }
//@const src/stats.rs POPULATION_LIMIT | ensures r.v() == 100000real,
//@freefn src/stats.rs interval_bounds ret r vis pub
//@| requires conf_valid(confidence), degrees_of_freedom.v() > 0real,
//@| ensures r.0.v() == mean.v() - rmul(crit(confidence, degrees_of_freedom.v()), std_err_mean.v()),
//@|         r.1.v() == mean.v() + rmul(crit(confidence, degrees_of_freedom.v()), std_err_mean.v()),
