// ===== spec functions for proportion.rs (C02) =====
pub open spec fn new_spec(lo: real, hi: real) -> CIResult<Interval<R>> {
    if lo <= hi { Ok(Interval::TwoSided(r_of(lo), r_of(hi))) } else { Err(CIError::IntervalError(IntervalError::InvalidBounds)) }
}
// the z of property C02: standard-normal quantile at (1+L)/2 (two-sided) or L (one-sided)
pub open spec fn z_of(c: Confidence) -> real { normal_quantile(conf_quantile(c)) }
// what the default (Wilson) method returns for counts (n, k): exactly its documented domain, the two roots of the score
// equation (lemma_roots), [lower root, 1] for an upper one-sided request, [0, upper root] for a lower one-sided request
pub open spec fn wilson_spec(c: Confidence, n: usize, k: usize) -> CIResult<Interval<R>> {
    if k > n { Err(CIError::InvalidSuccesses(k, n)) }
    else if k < 2 { Err(CIError::TooFewSuccesses(k, n, r_of(k as real))) }
    else if n - k < 2 { Err(CIError::TooFewFailures((n - k) as usize, n, r_of(n as real - k as real))) }
    else {
        let z = z_of(c);
        match c {
            Confidence::TwoSided(_) => new_spec(w_lo(n as real, k as real, z), w_hi(n as real, k as real, z)),
            Confidence::UpperOneSided(_) => new_spec(w_lo(n as real, k as real, z), 1real),
            Confidence::LowerOneSided(_) => new_spec(0real, w_hi(n as real, k as real, z)),
        }
    }
}
// Wald variant: k/n -/+ z * sqrt((k/n)(1 - k/n)/n), exactly when n*p >= 10 and n*q >= 10
pub open spec fn wald_p(n: usize, k: usize) -> real { rdiv(k as real, n as real) }
pub open spec fn wald_sd(n: usize, k: usize) -> real { sqrt_spec(rdiv(rmul(wald_p(n, k), 1real - wald_p(n, k)), n as real)) }
pub open spec fn wald_spec(c: Confidence, n: usize, k: usize) -> CIResult<Interval<R>> {
    let p = wald_p(n, k);
    let q = 1real - p;
    if k > n { Err(CIError::InvalidSuccesses(k, n)) }
    else if rmul(n as real, p) < 10real { Err(CIError::TooFewSuccesses(k, n, r_of(rmul(n as real, p)))) }
    else if rmul(n as real, q) < 10real { Err(CIError::TooFewFailures((n - k) as usize, n, r_of(rmul(n as real, q)))) }
    else {
        let span = rmul(z_of(c), wald_sd(n, k));
        match c {
            Confidence::TwoSided(_) => new_spec(p - span, p + span),
            Confidence::UpperOneSided(_) => new_spec(p - span, 1real),
            Confidence::LowerOneSided(_) => new_spec(0real, p + span),
        }
    }
}
// the count a success ratio implies: the nearest integer to ratio * n (taken from the property, not from the code)
pub open spec fn ratio_count(n: usize, ratio: real) -> usize { to_usize_spec(round_spec(rmul(ratio, n as real))) }
// counting
pub open spec fn count_true(s: Seq<bool>, k: int) -> nat decreases k { if k <= 0 { 0 } else { count_true(s, k - 1) + (if s[k - 1] { 1nat } else { 0nat }) } }
pub proof fn lemma_count_true_le(s: Seq<bool>, k: int) requires 0 <= k <= s.len() ensures count_true(s, k) <= k decreases k { if k > 0 { lemma_count_true_le(s, k - 1); } }

// ---- pure lemmas connecting the spec to the property's sentence
// (1) the bounds do not depend on the sign convention of z beyond exchanging roles
pub proof fn lemma_w_neg_z(n: real, k: real, z: real)
    requires n > 0real, 0real <= k <= n,
    ensures w_lo(n, k, -z) == w_hi(n, k, z), w_hi(n, k, -z) == w_lo(n, k, z),
{
    let d = wd(n, z);
    lemma_basic(n, k, z);
    assert((-z) * (-z) == z * z) by(nonlinear_arith);
    assert(wd(n, -z) == d && wa(k, -z) == wa(k, z) && wrad(n, k, -z) == wrad(n, k, z));
    let s = sqrt_spec(wrad(n, k, z));
    let zd = z / d;
    assert((-z) / d == -zd) by(nonlinear_arith) requires zd == z / d, d > 0real;
    assert((-zd) * s == -(zd * s)) by(nonlinear_arith);
}
// (2) for every z both bounds lie in [0,1]; they are ordered exactly as the sign of z says
pub broadcast proof fn lemma_wilson_bounds_any_z(n: real, k: real, z: real)
    requires n > 0real, 0real < k < n,
    ensures 0real <= #[trigger] w_lo(n, k, z) <= 1real, 0real <= w_hi(n, k, z) <= 1real,
            z >= 0real ==> w_lo(n, k, z) <= w_hi(n, k, z), z <= 0real ==> w_hi(n, k, z) <= w_lo(n, k, z),
{
    if z >= 0real {
        lemma_unit_interval(n, k, z);
        lemma_order(n, k, z);
        if z == 0real { lemma_w_neg_z(n, k, 0real); }
    } else {
        lemma_w_neg_z(n, k, -z);
        lemma_unit_interval(n, k, -z);
        lemma_order(n, k, -z);
    }
}
// (3) C02's sentence: on the documented domain and for a level >= 1/2 the result is Ok, its finite bounds are the two roots of
//     n (p - k/n)^2 = z^2 p (1 - p), they lie in [0,1], and the one-sided forms are [lower root, 1] / [0, upper root]
pub proof fn lemma_wilson_is_score_interval(c: Confidence, n: usize, k: usize)
    requires conf_valid(c), 2 <= k, k + 2 <= n, conf_quantile(c) >= 0.5real,
    ensures ({
        let z = z_of(c); let lo = w_lo(n as real, k as real, z); let hi = w_hi(n as real, k as real, z);
        &&& score(n as real, k as real, z, lo) == 0real && score(n as real, k as real, z, hi) == 0real
        &&& 0real <= lo <= (k as real) / (n as real) <= hi <= 1real
        &&& wilson_spec(c, n, k) == (match c {
                Confidence::TwoSided(_) => Ok::<Interval<R>, CIError>(Interval::TwoSided(r_of(lo), r_of(hi))),
                Confidence::UpperOneSided(_) => Ok::<Interval<R>, CIError>(Interval::TwoSided(r_of(lo), r_of(1real))),
                Confidence::LowerOneSided(_) => Ok::<Interval<R>, CIError>(Interval::TwoSided(r_of(0real), r_of(hi))),
            })
    }),
{
    let z = z_of(c);
    ax_nq_sign(conf_quantile(c));
    lemma_roots(n as real, k as real, z);
    lemma_unit_interval(n as real, k as real, z);
    lemma_phat_between(n as real, k as real, z);
}
// ---- C17 at the level of the returned value: the interval for n-k successes is the mirror image 1 - (interval for k),
//      with upper and lower one-sidedness exchanged
pub proof fn lemma_c17_wilson_spec_mirror(c: Confidence, n: usize, k: usize)
    requires conf_valid(c), 2 <= k, k + 2 <= n, conf_quantile(c) >= 0.5real,
    ensures ({
        let j = (n - k) as usize; let f = conf_flipped(c); let z = z_of(c);
        let (lo, hi) = (w_lo(n as real, k as real, z), w_hi(n as real, k as real, z));
        wilson_spec(f, n, j) == (match c {
            Confidence::TwoSided(_) => Ok::<Interval<R>, CIError>(Interval::TwoSided(r_of(1real - hi), r_of(1real - lo))),
            // c upper: [lo, 1]  ->  mirrored request is lower: [0, 1 - lo]
            Confidence::UpperOneSided(_) => Ok::<Interval<R>, CIError>(Interval::TwoSided(r_of(0real), r_of(1real - lo))),
            Confidence::LowerOneSided(_) => Ok::<Interval<R>, CIError>(Interval::TwoSided(r_of(1real - hi), r_of(1real))),
        })
    }),
{
    let j = (n - k) as usize;
    let f = conf_flipped(c);
    assert(conf_quantile(f) == conf_quantile(c) && conf_valid(f));
    lemma_mirror(n as real, k as real, z_of(c));
    assert(j as real == n as real - k as real);
    lemma_wilson_is_score_interval(f, n, j);
}
// Wald analogues: mirror, midpoint k/n, width 2 z sd
pub proof fn lemma_wald_mirror(n: usize, k: usize)
    requires 0 < n, k <= n,
    ensures wald_p(n, (n - k) as usize) == 1real - wald_p(n, k), wald_sd(n, (n - k) as usize) == wald_sd(n, k),
{
    let nr = n as real; let kr = k as real;
    assert((nr - kr) / nr == 1real - kr / nr) by(nonlinear_arith) requires nr > 0real;
    let p = wald_p(n, k);
    assert(rmul(1real - p, 1real - (1real - p)) == rmul(p, 1real - p)) by(nonlinear_arith);
}
