// ===== order on T, denotation of intervals, set-relation lemmas (shared by the units `interval` and `interval_order`) =====
// ---- the order on T, as the comparison operators see it
pub open spec fn le<T: PartialOrd>(a: T, b: T) -> bool {
    a.partial_cmp_spec(&b) == Some(Ordering::Less) || a.partial_cmp_spec(&b) == Some(Ordering::Equal)
}
pub open spec fn lt<T: PartialOrd>(a: T, b: T) -> bool {
    a.partial_cmp_spec(&b) == Some(Ordering::Less)
}
pub open spec fn gt<T: PartialOrd>(a: T, b: T) -> bool {
    a.partial_cmp_spec(&b) == Some(Ordering::Greater)
}
pub open spec fn ge<T: PartialOrd>(a: T, b: T) -> bool {
    a.partial_cmp_spec(&b) == Some(Ordering::Greater) || a.partial_cmp_spec(&b) == Some(Ordering::Equal)
}

// T is a total order whose partial_cmp is coherent (Less/Greater mirror each other, Equal is equality)
pub open spec fn total_order<T: PartialOrd>() -> bool {
    &&& T::obeys_partial_cmp_spec()
    &&& forall|a: T, b: T| #[trigger] a.partial_cmp_spec(&b) is Some
    &&& forall|a: T, b: T| (#[trigger] a.partial_cmp_spec(&b) == Some(Ordering::Equal)) <==> a == b
    &&& forall|a: T, b: T| (#[trigger] a.partial_cmp_spec(&b) == Some(Ordering::Less)) <==> (b.partial_cmp_spec(&a) == Some(Ordering::Greater))
    &&& forall|a: T, b: T, c: T| #[trigger] le(a, b) && #[trigger] le(b, c) ==> le(a, c)
}
// ... with no least and no greatest element (so that a half-line really is unbounded)
pub open spec fn below<T: PartialOrd>(a: T) -> T { choose|b: T| lt(b, a) }
pub open spec fn above<T: PartialOrd>(a: T) -> T { choose|b: T| lt(a, b) }
pub open spec fn unbounded<T: PartialOrd>() -> bool {
    &&& forall|a: T| lt(#[trigger] below(a), a)
    &&& forall|a: T| lt(a, #[trigger] above(a))
}
pub open spec fn max_of<T: PartialOrd>(a: T, b: T) -> T { if le(a, b) { b } else { a } }

// ---- denotation: the closed set an interval stands for (property C07, first sentence)
pub open spec fn den<T: PartialOrd>(i: Interval<T>, x: T) -> bool {
    match i {
        Interval::TwoSided(l, h) => le(l, x) && le(x, h),
        Interval::UpperOneSided(l) => le(l, x),
        Interval::LowerOneSided(h) => le(x, h),
    }
}
// Interval::new: the two-sided interval when low <= high, InvalidBounds otherwise (incomparable bounds included)
pub open spec fn new_spec<T: PartialOrd>(low: T, high: T) -> Result<Interval<T>, IntervalError> {
    if le(low, high) { Ok(Interval::TwoSided(low, high)) } else { Err(IntervalError::InvalidBounds) }
}
pub open spec fn inf_opt<T: PartialOrd>(i: Interval<T>) -> Option<T> {
    match i { Interval::TwoSided(l, _) => Some(l), Interval::UpperOneSided(l) => Some(l), Interval::LowerOneSided(_) => None }
}
pub open spec fn sup_opt<T: PartialOrd>(i: Interval<T>) -> Option<T> {
    match i { Interval::TwoSided(_, h) => Some(h), Interval::LowerOneSided(h) => Some(h), Interval::UpperOneSided(_) => None }
}
pub open spec fn wf<T: PartialOrd>(i: Interval<T>) -> bool {
    match i {
        Interval::TwoSided(l, h) => le(l, h),
        _ => true,
    }
}
// superset, written from the sets (not from the code)
pub open spec fn incl_qf<T: PartialOrd>(a: Interval<T>, b: Interval<T>) -> bool {
    match (a, b) {
        (Interval::TwoSided(x, y), Interval::TwoSided(p, q)) => le(x, p) && le(q, y),
        (Interval::TwoSided(_, _), _) => false,                       // bounded cannot contain a half-line
        (Interval::UpperOneSided(x), Interval::TwoSided(p, _)) => le(x, p),
        (Interval::UpperOneSided(x), Interval::UpperOneSided(p)) => le(x, p),
        (Interval::UpperOneSided(_), Interval::LowerOneSided(_)) => false,
        (Interval::LowerOneSided(y), Interval::TwoSided(_, q)) => le(q, y),
        (Interval::LowerOneSided(y), Interval::LowerOneSided(q)) => le(q, y),
        (Interval::LowerOneSided(_), Interval::UpperOneSided(_)) => false,
    }
}
// non-empty intersection, written from the sets: every lower bound that exists is <= every upper bound that exists
pub open spec fn meet_qf<T: PartialOrd>(a: Interval<T>, b: Interval<T>) -> bool {
    match (a, b) {
        (Interval::TwoSided(x, y), Interval::TwoSided(p, q)) => le(x, q) && le(p, y),
        (Interval::TwoSided(x, y), Interval::UpperOneSided(p)) => le(p, y),
        (Interval::TwoSided(x, y), Interval::LowerOneSided(q)) => le(x, q),
        (Interval::UpperOneSided(x), Interval::TwoSided(p, q)) => le(x, q),
        (Interval::UpperOneSided(_), Interval::UpperOneSided(_)) => true,
        (Interval::UpperOneSided(x), Interval::LowerOneSided(q)) => le(x, q),
        (Interval::LowerOneSided(y), Interval::TwoSided(p, q)) => le(p, y),
        (Interval::LowerOneSided(y), Interval::UpperOneSided(p)) => le(p, y),
        (Interval::LowerOneSided(_), Interval::LowerOneSided(_)) => true,
    }
}


// ---- C07: the quantifier-free relations ARE the set relations of the denotations
pub open spec fn superset<T: PartialOrd>(a: Interval<T>, b: Interval<T>) -> bool {
    forall|x: T| #[trigger] den(b, x) ==> den(a, x)
}
pub open spec fn meets<T: PartialOrd>(a: Interval<T>, b: Interval<T>) -> bool {
    exists|x: T| #[trigger] den(a, x) && den(b, x)
}

pub proof fn lemma_ord<T: PartialOrd>(a: T, b: T)
    requires total_order::<T>(),
    ensures le(a, b) || le(b, a), le(a, b) && le(b, a) ==> a == b, lt(a, b) <==> !le(b, a), le(a, a), lt(a, b) ==> le(a, b),
{
    assert(a.partial_cmp_spec(&b) is Some);
    assert(b.partial_cmp_spec(&a) is Some);
    let o = a.partial_cmp_spec(&b)->Some_0;
    let p = b.partial_cmp_spec(&a)->Some_0;
    assert(o is Less || o is Equal || o is Greater);
    assert(p is Less || p is Equal || p is Greater);
    assert(a.partial_cmp_spec(&a) == Some(Ordering::Equal));
    assert((b.partial_cmp_spec(&a) == Some(Ordering::Less)) <==> (a.partial_cmp_spec(&b) == Some(Ordering::Greater)));
    assert((a.partial_cmp_spec(&b) == Some(Ordering::Less)) <==> (b.partial_cmp_spec(&a) == Some(Ordering::Greater)));
    assert((a.partial_cmp_spec(&b) == Some(Ordering::Equal)) <==> a == b);
    assert((b.partial_cmp_spec(&a) == Some(Ordering::Equal)) <==> b == a);
}
pub proof fn lemma_trans<T: PartialOrd>(a: T, b: T, c: T)
    requires total_order::<T>(), le(a, b), le(b, c),
    ensures le(a, c),
{}
// strictly above the larger of two values: strictly above both
pub proof fn lemma_above2<T: PartialOrd>(y: T, p: T) -> (w: T)
    requires total_order::<T>(), unbounded::<T>(),
    ensures w == above(max_of(y, p)), lt(y, w), lt(p, w), !le(w, y), !le(w, p), le(y, w), le(p, w),
{
    let m = max_of(y, p);
    let w = above(m);
    lemma_ord(y, p); lemma_ord(m, w); lemma_ord(y, w); lemma_ord(p, w); lemma_ord(w, y); lemma_ord(w, p);
    assert(le(y, m) && le(p, m));
    assert(lt(m, w));
    lemma_trans(y, m, w); lemma_trans(p, m, w);
    if le(w, y) { lemma_trans(w, y, m); }
    if le(w, p) { lemma_trans(w, p, m); }
    w
}
pub proof fn lemma_below2<T: PartialOrd>(x: T, q: T) -> (w: T)
    requires total_order::<T>(), unbounded::<T>(),
    ensures w == below(if le(x, q) { x } else { q }), lt(w, x), lt(w, q), !le(x, w), !le(q, w), le(w, x), le(w, q),
{
    let m = if le(x, q) { x } else { q };
    let w = below(m);
    lemma_ord(x, q); lemma_ord(w, m); lemma_ord(w, x); lemma_ord(w, q); lemma_ord(x, w); lemma_ord(q, w);
    assert(le(m, x) && le(m, q));
    assert(lt(w, m));
    lemma_trans(w, m, x); lemma_trans(w, m, q);
    if le(x, w) { lemma_trans(m, x, w); }
    if le(q, w) { lemma_trans(m, q, w); }
    w
}

pub proof fn lemma_incl_is_superset<T: PartialOrd>(a: Interval<T>, b: Interval<T>)
    requires total_order::<T>(), unbounded::<T>(), wf(a), wf(b),
    ensures incl_qf(a, b) <==> superset(a, b),
{
    if incl_qf(a, b) {
        assert forall|x: T| #[trigger] den(b, x) implies den(a, x) by {}
    } else {
        // exhibit a member of b that is not in a
        match (a, b) {
            (Interval::TwoSided(x, y), Interval::TwoSided(p, q)) => {
                if !le(x, p) { assert(den(b, p) && !den(a, p)); } else { assert(den(b, q) && !den(a, q)); }
            },
            (Interval::TwoSided(x, y), Interval::UpperOneSided(p)) => {
                let w = lemma_above2(y, p);
                assert(den(b, w) && !den(a, w));
            },
            (Interval::TwoSided(x, y), Interval::LowerOneSided(q)) => {
                let w = lemma_below2(x, q);
                assert(den(b, w) && !den(a, w));
            },
            (Interval::UpperOneSided(x), Interval::TwoSided(p, _)) => { assert(den(b, p) && !den(a, p)); },
            (Interval::UpperOneSided(x), Interval::UpperOneSided(p)) => { assert(den(b, p) && !den(a, p)); },
            (Interval::UpperOneSided(x), Interval::LowerOneSided(q)) => {
                let w = lemma_below2(x, q);
                assert(den(b, w) && !den(a, w));
            },
            (Interval::LowerOneSided(y), Interval::TwoSided(_, q)) => { assert(den(b, q) && !den(a, q)); },
            (Interval::LowerOneSided(y), Interval::LowerOneSided(q)) => { assert(den(b, q) && !den(a, q)); },
            (Interval::LowerOneSided(y), Interval::UpperOneSided(p)) => {
                let w = lemma_above2(y, p);
                assert(den(b, w) && !den(a, w));
            },
        }
    }
}

pub proof fn lemma_meet_is_intersection<T: PartialOrd>(a: Interval<T>, b: Interval<T>)
    requires total_order::<T>(), wf(a), wf(b),
    ensures meet_qf(a, b) <==> meets(a, b),
{
    if meet_qf(a, b) {
        // witness: the larger of the lower bounds, or the smaller of the upper bounds
        let w: T = match (a, b) {
            (Interval::TwoSided(x, _), Interval::TwoSided(p, _)) => max_of(x, p),
            (Interval::TwoSided(x, _), Interval::UpperOneSided(p)) => max_of(x, p),
            (Interval::TwoSided(x, _), Interval::LowerOneSided(_)) => x,
            (Interval::UpperOneSided(x), Interval::TwoSided(p, _)) => max_of(x, p),
            (Interval::UpperOneSided(x), Interval::UpperOneSided(p)) => max_of(x, p),
            (Interval::UpperOneSided(x), Interval::LowerOneSided(_)) => x,
            (Interval::LowerOneSided(_), Interval::TwoSided(p, _)) => p,
            (Interval::LowerOneSided(_), Interval::UpperOneSided(p)) => p,
            (Interval::LowerOneSided(y), Interval::LowerOneSided(q)) => if le(y, q) { y } else { q },
        };
        match (a, b) {
            (Interval::TwoSided(x, _), Interval::TwoSided(p, _)) => { lemma_ord(x, p); },
            (Interval::TwoSided(x, _), Interval::UpperOneSided(p)) => { lemma_ord(x, p); },
            (Interval::UpperOneSided(x), Interval::TwoSided(p, _)) => { lemma_ord(x, p); },
            (Interval::UpperOneSided(x), Interval::UpperOneSided(p)) => { lemma_ord(x, p); },
            (Interval::LowerOneSided(y), Interval::LowerOneSided(q)) => { lemma_ord(y, q); },
            (Interval::TwoSided(x, _), Interval::LowerOneSided(_)) => { lemma_ord(x, x); },
            (Interval::UpperOneSided(x), Interval::LowerOneSided(_)) => { lemma_ord(x, x); },
            (Interval::LowerOneSided(_), Interval::TwoSided(p, _)) => { lemma_ord(p, p); },
            (Interval::LowerOneSided(_), Interval::UpperOneSided(p)) => { lemma_ord(p, p); },
        }
        assert(den(a, w) && den(b, w));
    } else {
        assert forall|x: T| !(#[trigger] den(a, x) && den(b, x)) by {}
    }
}

pub proof fn lemma_meet_symmetric<T: PartialOrd>(a: Interval<T>, b: Interval<T>)
    ensures meet_qf(a, b) == meet_qf(b, a),
{}

pub proof fn lemma_incl_reflexive_transitive<T: PartialOrd>(a: Interval<T>, b: Interval<T>, c: Interval<T>)
    requires total_order::<T>(), wf(a), wf(b), wf(c),
    ensures incl_qf(a, a), incl_qf(a, b) && incl_qf(b, c) ==> incl_qf(a, c),
{}

