// Verus unit `means` -- ideal-real model: utils::KahanSum, mean::{Arithmetic, Harmonic, Geometric},
// stats::interval_bounds, Confidence::quantile.  Serves C01, C05, C09 (and C10/C16 through the spec functions).
//@mode ideal
use vstd::prelude::*;
use vstd::std_specs::ops::*;
use vstd::std_specs::cmp::*;
use core::ops::{Add, Div, Mul, Neg, Sub};
use core::cmp::Ordering;
verus! {
pub mod spec {
use super::*;
use super::code::*;
//@include prelude/real.rs
//@include prelude/base_spec.rs
//@include prelude/lemmas_stats.rs
//@include prelude/lemmas_c10.rs
//@include prelude/lemmas_c10_means.rs
//@include prelude/lemmas_c16.rs
//@include prelude/lemmas_c16_more.rs
} // mod spec

pub mod code {
use super::*;
use super::spec::*;
broadcast use {ax_r_of, ax_r_ext, ax_sqrt, lemma_sqrt_pos, lemma_sq_nonneg, lemma_rmul_nonneg, lemma_rdiv_nonneg, ax_nq_sign, ax_nq_erf_inv, ax_tq_sign, ax_exp_pos, ax_exp_ln};
//@include prelude/base_code.rs

//@include prelude/means_code.rs

proof fn canary_must_fail() ensures false {}
} // mod code
} // verus!
fn main() {}
