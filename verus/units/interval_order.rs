// Verus unit `interval_order` -- exact (no arithmetic model): PartialOrd for Interval<T> of src/interval.rs, extracted at
// check time for a generic element type T.  Serves C15.  The or-patterns under a guard are expanded by rule R14; the trait
// method is verified as an inherent method (`rehomed`: a trait method implementation cannot carry `requires`).
//@mode exact
use vstd::prelude::*;
use vstd::std_specs::cmp::*;
use core::cmp::Ordering;
verus! {
pub mod spec {
use super::*;
use super::code::*;

//@include prelude/interval_spec.rs
//@include prelude/interval_order_spec.rs
} // mod spec

pub mod code {
use super::*;
use super::spec::*;

pub enum IntervalError { InvalidBounds, EmptyInterval }
//@item src/interval.rs enum Interval expect_derive=PartialEq
// #[derive(PartialEq)] of the enum, restated (derive output is invisible at source level; decided by Kani c14_partial_eq_*)
impl<T: PartialOrd> PartialEq for Interval<T> {
    fn eq(&self, other: &Self) -> (r: bool) {
        match (self, other) {
            (Interval::TwoSided(x, y), Interval::TwoSided(p, q)) => x == p && y == q,
            (Interval::UpperOneSided(x), Interval::UpperOneSided(p)) => x == p,
            (Interval::LowerOneSided(y), Interval::LowerOneSided(q)) => y == q,
            _ => false,
        }
    }
}
impl<T: PartialOrd> PartialEqSpecImpl for Interval<T> {
    open spec fn obeys_eq_spec() -> bool { T::obeys_eq_spec() }
    open spec fn eq_spec(&self, other: &Self) -> bool { ieq(*self, *other) }
}
//@include prelude/interval_core_code.rs
//@impl src/interval.rs impl<T: PartialOrd> PartialOrd for Interval<T> => impl<T: PartialOrd> Interval<T>
//@fn partial_cmp ret r vis pub
//@| requires total_order::<T>(), eq_coherent::<T>(), wf(*self), wf(*other),
//@| ensures r == cmp_spec(*self, *other),
//@endimpl
// vacuity guard: must FAIL (the runner checks that it does)
proof fn canary_must_fail<T: PartialOrd>() requires total_order::<T>(), unbounded::<T>(), eq_coherent::<T>() ensures false {}
} // mod code
} // verus!
fn main() {}
