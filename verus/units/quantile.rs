// Verus unit `quantile` -- ideal-real model: quantile::{Stats::ci, Stats::index, ci_indices} on top of proportion::ci_wilson.  Serves C03 (and C10).
//@mode ideal
use vstd::prelude::*;
use vstd::std_specs::ops::*;
use vstd::std_specs::cmp::*;
use core::ops::{Add, Div, Mul, Neg, Sub};
use core::cmp::Ordering;
verus! {
pub mod spec {
use super::*;
use super::code::*;
//@include prelude/real.rs
//@include prelude/base_spec.rs
//@include prelude/wilson_lemmas.rs
//@include prelude/proportion_spec.rs
//@include prelude/quantile_spec.rs
//@include prelude/lemmas_c10.rs
//@include prelude/lemmas_c10_prop.rs
//@include prelude/lemmas_c10_quantile.rs
//@include prelude/lemmas_quantile_order.rs
} // mod spec

pub mod code {
use super::*;
use super::spec::*;
broadcast use {ax_r_of, ax_r_ext, ax_sqrt, lemma_sqrt_pos, lemma_sq_nonneg, lemma_rmul_nonneg, lemma_rdiv_nonneg, ax_nq_sign, ax_nq_erf_inv, ax_tq_sign, ax_floor, lemma_floor_int, lemma_wilson_bounds_any_z};
//@include prelude/base_code.rs
//@include prelude/wilson_code.rs
//@include prelude/quantile_code.rs

proof fn canary_must_fail() ensures false {}
} // mod code
} // verus!
fn main() {}
