// Verus unit `interval` -- exact (no arithmetic model): generic Interval<T> code of src/interval.rs,
// extracted verbatim at check time.  Serves C07 (set relations) and C14 (well-formedness, accessors).
//@mode exact
use vstd::prelude::*;
use vstd::std_specs::cmp::*;
use vstd::std_specs::convert::*;
use core::cmp::Ordering;
use core::ops::{Bound, RangeBounds, RangeFrom, RangeToInclusive};
verus! {
pub mod spec {
use super::*;
use super::code::*;

//@include prelude/interval_spec.rs
} // mod spec

pub mod code {
use super::*;
use super::spec::*;

pub enum IntervalError { InvalidBounds, EmptyInterval }

//@item src/interval.rs enum Interval
//@include prelude/interval_core_code.rs
// ---- C14: conversions and accessors (generic T).  vstd attaches the contract of a From / TryFrom / RangeBounds implementation
// through the *SpecImpl traits below; each `*_spec` function is written from the property (which value goes where), and Verus
// checks the extracted body against it.
//@impl src/interval.rs impl<T: PartialOrd> TryFrom<(T, T)> for Interval<T>
//@fn try_from ret r
//@endimpl
impl<T: PartialOrd> TryFromSpecImpl<(T, T)> for Interval<T> {
    open spec fn obeys_try_from_spec() -> bool { T::obeys_partial_cmp_spec() }
    open spec fn try_from_spec(value: (T, T)) -> Result<Self, Self::Error> { new_spec(value.0, value.1) }
}
//@impl src/interval.rs impl<T: PartialOrd> TryFrom<(Option<T>, Option<T>)> for Interval<T>
//@fn try_from ret r
//@endimpl
impl<T: PartialOrd> TryFromSpecImpl<(Option<T>, Option<T>)> for Interval<T> {
    open spec fn obeys_try_from_spec() -> bool { T::obeys_partial_cmp_spec() }
    open spec fn try_from_spec(value: (Option<T>, Option<T>)) -> Result<Self, Self::Error> {
        match value {
            (Some(l), Some(h)) => new_spec(l, h),
            (Some(l), None) => Ok(Interval::UpperOneSided(l)),
            (None, Some(h)) => Ok(Interval::LowerOneSided(h)),
            (None, None) => Err(IntervalError::EmptyInterval),
        }
    }
}
//@impl src/interval.rs impl<T: PartialOrd + Clone> From<Interval<T>> for (Option<T>, Option<T>)
//@fn from ret r
//@endimpl
impl<T: PartialOrd + Clone> FromSpecImpl<Interval<T>> for (Option<T>, Option<T>) {
    open spec fn obeys_from_spec() -> bool { true }
    open spec fn from_spec(interval: Interval<T>) -> Self { (inf_opt(interval), sup_opt(interval)) }
}
//@impl src/interval.rs impl<T: PartialOrd> From<RangeFrom<T>> for Interval<T>
//@fn from ret r
//@endimpl
impl<T: PartialOrd> FromSpecImpl<RangeFrom<T>> for Interval<T> {
    open spec fn obeys_from_spec() -> bool { true }
    open spec fn from_spec(range: RangeFrom<T>) -> Self { Interval::UpperOneSided(range.start) }
}
//@impl src/interval.rs impl<T: PartialOrd> From<RangeToInclusive<T>> for Interval<T>
//@fn from ret r
//@endimpl
impl<T: PartialOrd> FromSpecImpl<RangeToInclusive<T>> for Interval<T> {
    open spec fn obeys_from_spec() -> bool { true }
    open spec fn from_spec(range: RangeToInclusive<T>) -> Self { Interval::LowerOneSided(range.end) }
}
// the RangeBounds view: both ends inclusive where they exist (C07: same membership as `contains`)
//@impl src/interval.rs impl<T: PartialOrd> RangeBounds<T> for Interval<T>
//@fn start_bound ret r
//@| ensures match *self { Interval::TwoSided(l, _) => r == Bound::Included(&l), Interval::UpperOneSided(l) => r == Bound::Included(&l), Interval::LowerOneSided(_) => r is Unbounded },
//@fn end_bound ret r
//@| ensures match *self { Interval::TwoSided(_, h) => r == Bound::Included(&h), Interval::LowerOneSided(h) => r == Bound::Included(&h), Interval::UpperOneSided(_) => r is Unbounded },
//@endimpl
//@impl src/interval.rs impl<T: PartialOrd + PartialEq> Interval<T>
//@fn is_degenerate ret r
//@| requires T::obeys_eq_spec(),
//@| ensures r == match *self { Interval::TwoSided(x, y) => x.eq_spec(&y), _ => false },
//@endimpl
//@impl src/interval.rs impl<T: PartialOrd + Clone> Interval<T>
//@fn low ret r
//@| ensures (r is Some) == (inf_opt(*self) is Some), r is Some ==> cloned(inf_opt(*self)->Some_0, r->Some_0),
//@fn high ret r
//@| ensures (r is Some) == (sup_opt(*self) is Some), r is Some ==> cloned(sup_opt(*self)->Some_0, r->Some_0),
//@endimpl
//@impl src/interval.rs impl<T: PartialOrd> Interval<T>
//@fn low_as_ref ret r
//@| ensures match *self { Interval::TwoSided(l, _) => r == Some(&l), Interval::UpperOneSided(l) => r == Some(&l), Interval::LowerOneSided(_) => r is None },
//@fn high_as_ref ret r
//@| ensures match *self { Interval::TwoSided(_, h) => r == Some(&h), Interval::LowerOneSided(h) => r == Some(&h), Interval::UpperOneSided(_) => r is None },
//@endimpl
//@impl src/interval.rs impl<T: PartialOrd + Clone> Clone for Interval<T>
//@fn clone ret r
//@| ensures match (*self, r) {
//@|     (Interval::TwoSided(l, h), Interval::TwoSided(l2, h2)) => cloned(l, l2) && cloned(h, h2),
//@|     (Interval::UpperOneSided(l), Interval::UpperOneSided(l2)) => cloned(l, l2),
//@|     (Interval::LowerOneSided(h), Interval::LowerOneSided(h2)) => cloned(h, h2),
//@|     _ => false },
//@endimpl
// ---- integer projections low_i / high_i / low_u / high_u (generic T): num_traits' `min_value` / `max_value` are DECLARED here as a
// model trait (signatures restated: a dependency's trait is outside /repo); the missing side projects to that extreme value
pub trait BoundedModel: Sized {
    spec fn min_spec() -> Self;
    spec fn max_spec() -> Self;
    fn min_value() -> (r: Self) ensures r == Self::min_spec();
    fn max_value() -> (r: Self) ensures r == Self::max_spec();
}
//@impl src/interval.rs impl<T: num_traits::PrimInt + num_traits::Signed> Interval<T> => impl<T: PartialOrd + Copy + BoundedModel> Interval<T>
//@fn low_i ret r
//@| ensures r == match *self { Interval::TwoSided(l, _) => l, Interval::UpperOneSided(l) => l, Interval::LowerOneSided(_) => T::min_spec() },
//@fn high_i ret r
//@| ensures r == match *self { Interval::TwoSided(_, h) => h, Interval::LowerOneSided(h) => h, Interval::UpperOneSided(_) => T::max_spec() },
//@endimpl
//@impl src/interval.rs impl<T: num_traits::PrimInt + num_traits::Unsigned> Interval<T> => impl<T: PartialOrd + Copy + BoundedModel> Interval<T>
//@fn low_u ret r
//@| ensures r == match *self { Interval::TwoSided(l, _) => l, Interval::UpperOneSided(l) => l, Interval::LowerOneSided(_) => T::min_spec() },
//@fn high_u ret r
//@| ensures r == match *self { Interval::TwoSided(_, h) => h, Interval::LowerOneSided(h) => h, Interval::UpperOneSided(_) => T::max_spec() },
//@endimpl
//@include prelude/interval_int_projections.rs
// vacuity guard: must FAIL (the runner checks that it does)
proof fn canary_must_fail<T: PartialOrd>() requires total_order::<T>(), unbounded::<T>() ensures false {}
} // mod code
} // verus!
fn main() {}
