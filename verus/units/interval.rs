// Verus unit `interval` -- exact (no arithmetic model): generic Interval<T> code of src/interval.rs,
// extracted verbatim at check time.  Serves C07 (set relations) and C14 (well-formedness, accessors).
//@mode exact
use vstd::prelude::*;
use vstd::std_specs::cmp::*;
use core::cmp::Ordering;
verus! {
pub mod spec {
use super::*;
use super::code::*;

//@include prelude/interval_spec.rs
} // mod spec

pub mod code {
use super::*;
use super::spec::*;

pub enum IntervalError { InvalidBounds, EmptyInterval }

//@item src/interval.rs enum Interval
//@impl src/interval.rs impl<T: PartialOrd> Interval<T>
//@fn new ret r
//@| requires T::obeys_partial_cmp_spec(),
//@| ensures le(low, high) ==> r == Ok::<Self, IntervalError>(Interval::TwoSided(low, high)),
//@|         !le(low, high) ==> r is Err && r->Err_0 is InvalidBounds,
//@|         r is Ok ==> wf(r->Ok_0),
//@fn new_upper ret r
//@| ensures r == Interval::UpperOneSided(low),
//@fn new_lower ret r
//@| ensures r == Interval::LowerOneSided(high),
//@fn is_two_sided ret r
//@| ensures r == (*self is TwoSided),
//@fn is_one_sided ret r
//@| ensures r == !(*self is TwoSided),
//@fn is_upper ret r
//@| ensures r == (*self is UpperOneSided),
//@fn is_lower ret r
//@| ensures r == (*self is LowerOneSided),
//@fn contains ret r
//@| requires total_order::<T>(),
//@| ensures r == den(*self, *x),
//@fn intersects ret r
//@| requires total_order::<T>(),
//@| ensures r == meet_qf(*self, *other),
//@fn is_included_in ret r
//@| requires total_order::<T>(),
//@| ensures r == incl_qf(*other, *self),
//@fn includes ret r
//@| requires total_order::<T>(),
//@| ensures r == incl_qf(*self, *other),
//@fn left ret r
//@| ensures match *self { Interval::TwoSided(l, _) => r == Some(&l), Interval::UpperOneSided(l) => r == Some(&l), Interval::LowerOneSided(_) => r is None },
//@fn right ret r
//@| ensures match *self { Interval::TwoSided(_, h) => r == Some(&h), Interval::LowerOneSided(h) => r == Some(&h), Interval::UpperOneSided(_) => r is None },
//@endimpl
// vacuity guard: must FAIL (the runner checks that it does)
proof fn canary_must_fail<T: PartialOrd>() requires total_order::<T>(), unbounded::<T>() ensures false {}
} // mod code
} // verus!
fn main() {}
