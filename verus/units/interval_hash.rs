// Verus unit `interval_hash` -- exact, generic element type: `impl Hash for Interval<T>` of src/interval.rs, extracted at check time.
// core::hash::{Hash, Hasher} are DECLARED here as a model (signatures restated; std's traits have no vstd specification): the state
// of a hasher is the sequence of everything fed to it, and hashing a value appends that value's own encoding.  What is verified:
// an interval feeds its kind tag (0 / 1 / 2) followed by the encodings of exactly the bounds it has, in order -- from which
// "equal intervals hash equally" and "the kind is part of the hash" follow.  Serves C14 (Hash consistent with equality).
//@mode exact
use vstd::prelude::*;
verus! {
pub mod spec {
use super::*;
use super::code::*;
pub open spec fn interval_enc<T: PartialOrd + Hash>(i: Interval<T>) -> Seq<int> {
    match i {
        Interval::TwoSided(l, h) => seq![0int] + l.enc() + h.enc(),
        Interval::UpperOneSided(l) => seq![1int] + l.enc(),
        Interval::LowerOneSided(h) => seq![2int] + h.enc(),
    }
}
// C14: equal intervals are fed identically (so they hash equally with every hasher), and the first item fed is the kind
pub proof fn lemma_hash_consistent_with_eq<T: PartialOrd + Hash>(a: Interval<T>, b: Interval<T>)
    ensures a == b ==> interval_enc(a) == interval_enc(b),
            interval_enc(a)[0] == (if a is TwoSided { 0int } else if a is UpperOneSided { 1int } else { 2int }),
            ((a is TwoSided) != (b is TwoSided) || (a is UpperOneSided) != (b is UpperOneSided)) ==> interval_enc(a)[0] != interval_enc(b)[0],
{
}
} // mod spec
pub mod code {
use super::*;
use super::spec::*;
// ---- model of core::hash
pub trait Hasher {
    spec fn log(&self) -> Seq<int>;
}
pub trait Hash {
    spec fn enc(&self) -> Seq<int>;
    fn hash<H: Hasher>(&self, state: &mut H)
        ensures final(state).log() == old(state).log() + self.enc();
}
// the integer literals the implementation feeds as kind tags are i32
impl Hash for i32 {
    open spec fn enc(&self) -> Seq<int> { seq![*self as int] }
    #[verifier::external_body]
    fn hash<H: Hasher>(&self, state: &mut H) { unimplemented!() }
}
//@item src/interval.rs enum Interval
//@impl src/interval.rs impl<T: PartialOrd + Hash> Hash for Interval<T>
    open spec fn enc(&self) -> Seq<int> { interval_enc(*self) }
//@fn hash
//@subst "core::hash::Hasher" => "Hasher"
//@endimpl
// vacuity guard: must FAIL (the runner checks that it does)
proof fn canary_must_fail() ensures false {}
} // mod code
} // verus!
fn main() {}
