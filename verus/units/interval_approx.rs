// Verus unit `interval_approx` -- exact, generic element type: the approx::{AbsDiffEq, RelativeEq, UlpsEq} implementations for
// Interval<T> of src/interval.rs, extracted at check time.  The three traits of the `approx` crate are DECLARED here (their method
// signatures restated; a dependency's trait declaration is outside /repo) with one uninterpreted spec function per comparison, so
// the element-level comparison is an ARBITRARY relation of (a, b, tolerances): what is verified is that the interval-level
// answer is "same kind, and the element-level answer on corresponding bounds with the same tolerances".  Serves C19.
//@mode exact
use vstd::prelude::*;
verus! {
pub mod spec {
use super::*;
use super::code::*;
// the property, for an element type whose own comparisons are arbitrary relations
pub open spec fn boundwise<T: PartialOrd>(a: Interval<T>, b: Interval<T>, rel: spec_fn(T, T) -> bool) -> bool {
    match (a, b) {
        (Interval::TwoSided(l1, h1), Interval::TwoSided(l2, h2)) => rel(l1, l2) && rel(h1, h2),
        (Interval::UpperOneSided(l1), Interval::UpperOneSided(l2)) => rel(l1, l2),
        (Interval::LowerOneSided(h1), Interval::LowerOneSided(h2)) => rel(h1, h2),
        _ => false,
    }
}
} // mod spec
pub mod code {
use super::*;
use super::spec::*;
// ---- the approx crate's trait declarations, restated (signatures only), each comparison tied to an uninterpreted relation
pub trait AbsDiffEq<Rhs = Self>: PartialEq<Rhs> where Rhs: ?Sized {
    type Epsilon;
    spec fn default_epsilon_spec() -> Self::Epsilon;
    spec fn abs_diff_eq_spec(&self, other: &Rhs, epsilon: Self::Epsilon) -> bool;
    fn default_epsilon() -> (r: Self::Epsilon) ensures r == Self::default_epsilon_spec();
    fn abs_diff_eq(&self, other: &Rhs, epsilon: Self::Epsilon) -> (r: bool) ensures r == self.abs_diff_eq_spec(other, epsilon);
}
pub trait RelativeEq<Rhs = Self>: AbsDiffEq<Rhs> where Rhs: ?Sized {
    spec fn default_max_relative_spec() -> Self::Epsilon;
    spec fn relative_eq_spec(&self, other: &Rhs, epsilon: Self::Epsilon, max_relative: Self::Epsilon) -> bool;
    fn default_max_relative() -> (r: Self::Epsilon) ensures r == Self::default_max_relative_spec();
    fn relative_eq(&self, other: &Rhs, epsilon: Self::Epsilon, max_relative: Self::Epsilon) -> (r: bool) ensures r == self.relative_eq_spec(other, epsilon, max_relative);
}
pub trait UlpsEq<Rhs = Self>: AbsDiffEq<Rhs> where Rhs: ?Sized {
    spec fn default_max_ulps_spec() -> u32;
    spec fn ulps_eq_spec(&self, other: &Rhs, epsilon: Self::Epsilon, max_ulps: u32) -> bool;
    fn default_max_ulps() -> (r: u32) ensures r == Self::default_max_ulps_spec();
    fn ulps_eq(&self, other: &Rhs, epsilon: Self::Epsilon, max_ulps: u32) -> (r: bool) ensures r == self.ulps_eq_spec(other, epsilon, max_ulps);
}
//@item src/interval.rs enum Interval expect_derive=PartialEq
// #[derive(PartialEq)] of the enum, restated (needed as supertrait of AbsDiffEq; decided by Kani c14_eq_*)
impl<T: PartialOrd> PartialEq for Interval<T> {
    fn eq(&self, other: &Self) -> (r: bool) {
        match (self, other) {
            (Interval::TwoSided(x, y), Interval::TwoSided(p, q)) => x == p && y == q,
            (Interval::UpperOneSided(x), Interval::UpperOneSided(p)) => x == p,
            (Interval::LowerOneSided(y), Interval::LowerOneSided(q)) => y == q,
            _ => false,
        }
    }
}
impl<T: PartialOrd> vstd::std_specs::cmp::PartialEqSpecImpl for Interval<T> {
    open spec fn obeys_eq_spec() -> bool { false }
    open spec fn eq_spec(&self, other: &Self) -> bool { arbitrary() }
}
//@impl src/interval.rs impl<T: approx::AbsDiffEq + PartialOrd> approx::AbsDiffEq for Interval<T> where T::Epsilon: Copy, => impl<T: AbsDiffEq + PartialOrd> AbsDiffEq for Interval<T> where T::Epsilon: Copy
    open spec fn default_epsilon_spec() -> T::Epsilon { T::default_epsilon_spec() }
    open spec fn abs_diff_eq_spec(&self, other: &Self, epsilon: T::Epsilon) -> bool { boundwise(*self, *other, |a: T, b: T| a.abs_diff_eq_spec(&b, epsilon)) }
//@fn default_epsilon ret r
//@fn abs_diff_eq ret r
//@endimpl
//@impl src/interval.rs impl<T: approx::RelativeEq + PartialOrd> approx::RelativeEq for Interval<T> where T::Epsilon: Copy, => impl<T: RelativeEq + PartialOrd> RelativeEq for Interval<T> where T::Epsilon: Copy
    open spec fn default_max_relative_spec() -> T::Epsilon { T::default_max_relative_spec() }
    open spec fn relative_eq_spec(&self, other: &Self, epsilon: T::Epsilon, max_relative: T::Epsilon) -> bool { boundwise(*self, *other, |a: T, b: T| a.relative_eq_spec(&b, epsilon, max_relative)) }
//@fn default_max_relative ret r
//@fn relative_eq ret r
//@endimpl
//@impl src/interval.rs impl<T: approx::UlpsEq + PartialOrd> approx::UlpsEq for Interval<T> where T::Epsilon: Copy, => impl<T: UlpsEq + PartialOrd> UlpsEq for Interval<T> where T::Epsilon: Copy
    open spec fn default_max_ulps_spec() -> u32 { T::default_max_ulps_spec() }
    open spec fn ulps_eq_spec(&self, other: &Self, epsilon: T::Epsilon, max_ulps: u32) -> bool { boundwise(*self, *other, |a: T, b: T| a.ulps_eq_spec(&b, epsilon, max_ulps)) }
//@fn default_max_ulps ret r
//@fn ulps_eq ret r
//@endimpl
// vacuity guard: must FAIL (the runner checks that it does)
proof fn canary_must_fail() ensures false {}
} // mod code
} // verus!
fn main() {}
