// Verus unit `comparison` -- ideal-real model: comparison::{Paired, Unpaired} on top of mean::Arithmetic.  Serves C04 (and C09/C10/C16).
//@mode ideal
use vstd::prelude::*;
use vstd::std_specs::ops::*;
use vstd::std_specs::cmp::*;
use core::ops::{Add, Div, Mul, Neg, Sub};
use core::cmp::Ordering;
use core::slice::Iter;
use vstd::std_specs::iter::IteratorSpec;
verus! {
pub mod spec {
use super::*;
use super::code::*;
//@include prelude/real.rs
//@include prelude/base_spec.rs
//@include prelude/lemmas_stats.rs
//@include prelude/comparison_spec.rs
//@include prelude/lemmas_c10.rs
//@include prelude/lemmas_c10_unpaired.rs
//@include prelude/lemmas_c16.rs
//@include prelude/lemmas_c16_unpaired.rs
} // mod spec

pub mod code {
use super::*;
use super::spec::*;
broadcast use {ax_r_of, ax_r_ext, ax_sqrt, lemma_sqrt_pos, lemma_sq_nonneg, lemma_rmul_nonneg, lemma_rdiv_nonneg, ax_nq_sign, ax_nq_erf_inv, ax_tq_sign, ax_exp_pos, ax_exp_ln, lemma_welch_dof_pos, lemma_sqrt_zero};
//@include prelude/base_code.rs
//@include prelude/means_code.rs

// ---------------- comparison.rs: Paired (arithmetic statistics of the differences a_i - b_i)
//@item src/comparison.rs struct Paired derive=Clone,Copy
impl Paired { pub closed spec fn inner(self) -> Arithmetic { self.stats } }
//@impl src/comparison.rs impl<T: Float> Default for Paired<T>
//@fn default ret r
//@| ensures r.inner().wf(), r.inner().s1() == 0real, r.inner().s2() == 0real, r.inner().n() == 0,
//@endimpl
//@impl src/comparison.rs impl<T: Float> Paired<T>
//@fn append_pair ret r
//@| requires old(self).inner().wf(), old(self).inner().n() < usize::MAX,
//@| ensures r is Ok, final(self).inner().wf(),
//@|         final(self).inner().s1() == old(self).inner().s1() + (data_a.v() - data_b.v()),
//@|         final(self).inner().s2() == old(self).inner().s2() + rmul(data_a.v() - data_b.v(), data_a.v() - data_b.v()),
//@|         final(self).inner().n() == old(self).inner().n() + 1,
//@fn extend_tuple ret r
//@subst "iter.into_iter()" => "iter"
//@| requires old(self).inner().wf(), old(self).inner().n() + iter.len() < usize::MAX,
//@| ensures r is Ok, final(self).inner().wf(), final(self).inner().n() == old(self).inner().n() + iter.len(),
//@|         final(self).inner().s1() == old(self).inner().s1() + dsum_to(iter@, iter.len() as int),
//@|         final(self).inner().s2() == old(self).inner().s2() + dsumsq_to(iter@, iter.len() as int),
//@loop 0| invariant self.inner().wf(), self.inner().n() == old(self).inner().n() + it.index@, old(self).inner().n() + iter.len() < usize::MAX,
//@loop 0|     self.inner().s1() == old(self).inner().s1() + dsum_to(iter@, it.index@ as int),
//@loop 0|     self.inner().s2() == old(self).inner().s2() + dsumsq_to(iter@, it.index@ as int),
//@fn extend ret r
//@| requires old(self).inner().wf(), old(self).inner().n() + data_a.len() < usize::MAX, old(self).inner().n() + data_b.len() < usize::MAX,
//@| ensures data_a.len() == data_b.len() ==> r is Ok && final(self).inner().wf() && final(self).inner().n() == old(self).inner().n() + data_a.len()
//@|             && final(self).inner().s1() == old(self).inner().s1() + psum_to(data_a@, data_b@, data_a.len() as int)
//@|             && final(self).inner().s2() == old(self).inner().s2() + psumsq_to(data_a@, data_b@, data_a.len() as int),
//@|         data_a.len() != data_b.len() ==> r is Err && r->Err_0 == CIError::DifferentSampleSizes(data_a.len(), data_b.len()),
//@loop 0| invariant tail_of(IteratorSpec::remaining(&$mut{data_a.into_iter()}), data_a@, $mut{0} as int), tail_of(IteratorSpec::remaining(&$mut{data_b.into_iter()}), data_b@, $mut{0} as int),
//@loop 0|     $mut{0} <= data_a.len(), $mut{0} <= data_b.len(), old(self).inner().n() + data_a.len() < usize::MAX, old(self).inner().n() + data_b.len() < usize::MAX,
//@loop 0|     self.inner().wf(), self.inner().n() == old(self).inner().n() + $mut{0},
//@loop 0|     self.inner().s1() == old(self).inner().s1() + psum_to(data_a@, data_b@, $mut{0} as int),
//@loop 0|     self.inner().s2() == old(self).inner().s2() + psumsq_to(data_a@, data_b@, $mut{0} as int),
//@loop 0| decreases data_a.len() - $mut{0},
//@fn sample_mean ret r
//@| requires self.inner().wf(),
//@| ensures r.v() == mean_of(self.inner().s1(), self.inner().n()),
//@fn sample_sem ret r
//@| requires self.inner().wf(), self.inner().n() >= 1,
//@| ensures r.v() == sem_of(self.inner().s1(), self.inner().s2(), self.inner().n()),
//@fn sample_count ret r
//@| ensures r as nat == self.inner().n(),
//@fn ci_mean ret r
//@| requires self.inner().wf(), conf_valid(confidence),
//@| ensures self.inner().n() < 2 ==> r is Err && r->Err_0 == CIError::TooFewSamples(self.inner().n() as usize),
//@|         self.inner().n() >= 2 ==> r is Ok,
//@|         r is Ok ==> ci_by_kind(confidence, mean_ci_lo(confidence, self.inner().s1(), self.inner().s2(), self.inner().n()), mean_ci_hi(confidence, self.inner().s1(), self.inner().s2(), self.inner().n()), r->Ok_0),
//@fn ci ret r
//@| requires conf_valid(confidence), data_a.len() < usize::MAX, data_b.len() < usize::MAX,
//@| ensures data_a.len() != data_b.len() ==> r is Err && r->Err_0 == CIError::DifferentSampleSizes(data_a.len(), data_b.len()),
//@|         data_a.len() == data_b.len() && data_a.len() < 2 ==> r is Err && r->Err_0 == CIError::TooFewSamples(data_a.len()),
//@|         data_a.len() == data_b.len() && data_a.len() >= 2 ==> r is Ok,
//@|         r is Ok ==> ci_by_kind(confidence,
//@|             mean_ci_lo(confidence, psum_to(data_a@, data_b@, data_a.len() as int), psumsq_to(data_a@, data_b@, data_a.len() as int), data_a.len() as nat),
//@|             mean_ci_hi(confidence, psum_to(data_a@, data_b@, data_a.len() as int), psumsq_to(data_a@, data_b@, data_a.len() as int), data_a.len() as nat), r->Ok_0),
//@endimpl

//@impl src/comparison.rs impl<F: Float> core::ops::Add for Paired<F>
//@fn add
//@endimpl
impl AddSpecImpl for Paired {
    open spec fn obeys_add_spec() -> bool { true }
    open spec fn add_req(self, rhs: Paired) -> bool { self.inner().wf() && rhs.inner().wf() && self.inner().n() + rhs.inner().n() <= usize::MAX }
    open spec fn add_spec(self, rhs: Paired) -> Paired { paired_merge(self, rhs) }
}
pub closed spec fn paired_merge(a: Paired, b: Paired) -> Paired { Paired { stats: arith_merge(a.stats, b.stats) } }
pub proof fn lemma_paired_merge(a: Paired, b: Paired)
    ensures paired_merge(a, b).inner() == arith_merge(a.inner(), b.inner()),
{}
//@impl src/comparison.rs impl<F: Float> core::ops::AddAssign for Paired<F>
//@fn add_assign
//@endimpl
impl AddAssignSpecImpl for Paired {
    open spec fn obeys_add_assign_spec() -> bool { true }
    open spec fn add_assign_req(self, rhs: Paired) -> bool { self.inner().wf() && rhs.inner().wf() && self.inner().n() + rhs.inner().n() <= usize::MAX }
    open spec fn add_assign_spec(self, rhs: Paired) -> Paired { paired_merge(self, rhs) }
}

// ---------------- comparison.rs: Unpaired (two independent arithmetic states)
//@item src/comparison.rs struct Unpaired derive=Clone,Copy
impl Unpaired {
    pub closed spec fn a(self) -> Arithmetic { self.stats_a }
    pub closed spec fn b(self) -> Arithmetic { self.stats_b }
    pub open spec fn wf(self) -> bool { self.a().wf() && self.b().wf() }
}
//@impl src/comparison.rs impl<T: Float> Default for Unpaired<T>
//@fn default ret r
//@| ensures r.wf(), r.a().s1() == 0real, r.a().s2() == 0real, r.a().n() == 0, r.b().s1() == 0real, r.b().s2() == 0real, r.b().n() == 0,
//@endimpl
//@impl src/comparison.rs impl<T: Float> Unpaired<T>
//@fn new ret r
//@| ensures r.a() == stats_a, r.b() == stats_b,
//@fn stats_a ret r
//@| ensures *r == self.a(),
//@fn stats_b ret r
//@| ensures *r == self.b(),
//@fn append_a ret r
//@| requires old(self).a().wf(), old(self).a().n() < usize::MAX,
//@| ensures r is Ok, final(self).b() == old(self).b(), final(self).a().wf(),
//@|         final(self).a().s1() == old(self).a().s1() + data_a.v(), final(self).a().s2() == old(self).a().s2() + rmul(data_a.v(), data_a.v()), final(self).a().n() == old(self).a().n() + 1,
//@fn append_b ret r
//@| requires old(self).b().wf(), old(self).b().n() < usize::MAX,
//@| ensures r is Ok, final(self).a() == old(self).a(), final(self).b().wf(),
//@|         final(self).b().s1() == old(self).b().s1() + data_b.v(), final(self).b().s2() == old(self).b().s2() + rmul(data_b.v(), data_b.v()), final(self).b().n() == old(self).b().n() + 1,
//@fn append_pair ret r
//@| requires old(self).wf(), old(self).a().n() < usize::MAX, old(self).b().n() < usize::MAX,
//@| ensures r is Ok, final(self).wf(),
//@|         final(self).a().s1() == old(self).a().s1() + data_a.v(), final(self).a().s2() == old(self).a().s2() + rmul(data_a.v(), data_a.v()), final(self).a().n() == old(self).a().n() + 1,
//@|         final(self).b().s1() == old(self).b().s1() + data_b.v(), final(self).b().s2() == old(self).b().s2() + rmul(data_b.v(), data_b.v()), final(self).b().n() == old(self).b().n() + 1,
//@fn extend_a ret r
//@| requires old(self).a().wf(), old(self).a().n() + data_a.len() < usize::MAX,
//@| ensures r is Ok, final(self).b() == old(self).b(), final(self).a().wf(), final(self).a().n() == old(self).a().n() + data_a.len(),
//@|         final(self).a().s1() == old(self).a().s1() + sum_to(data_a@, data_a.len() as int), final(self).a().s2() == old(self).a().s2() + sumsq_to(data_a@, data_a.len() as int),
//@fn extend_b ret r
//@| requires old(self).b().wf(), old(self).b().n() + data_b.len() < usize::MAX,
//@| ensures r is Ok, final(self).a() == old(self).a(), final(self).b().wf(), final(self).b().n() == old(self).b().n() + data_b.len(),
//@|         final(self).b().s1() == old(self).b().s1() + sum_to(data_b@, data_b.len() as int), final(self).b().s2() == old(self).b().s2() + sumsq_to(data_b@, data_b.len() as int),
//@fn extend ret r
//@| requires old(self).wf(), old(self).a().n() + data_a.len() < usize::MAX, old(self).b().n() + data_b.len() < usize::MAX,
//@| ensures r is Ok, final(self).wf(), final(self).a().n() == old(self).a().n() + data_a.len(), final(self).b().n() == old(self).b().n() + data_b.len(),
//@|         final(self).a().s1() == old(self).a().s1() + sum_to(data_a@, data_a.len() as int), final(self).a().s2() == old(self).a().s2() + sumsq_to(data_a@, data_a.len() as int),
//@|         final(self).b().s1() == old(self).b().s1() + sum_to(data_b@, data_b.len() as int), final(self).b().s2() == old(self).b().s2() + sumsq_to(data_b@, data_b.len() as int),
//@fn ci_mean ret r
//@| requires self.wf(), conf_valid(confidence),
//@| ensures self.a().n() < 2 ==> r is Err && r->Err_0 == CIError::TooFewSamples(self.a().n() as usize),
//@|         self.a().n() >= 2 && self.b().n() < 2 ==> r is Err && r->Err_0 == CIError::TooFewSamples(self.b().n() as usize),
//@|         self.a().n() >= 2 && self.b().n() >= 2 ==> r is Ok,
//@|         r is Ok ==> ci_by_kind(confidence, unpaired_lo(confidence, self.a().s1(), self.a().s2(), self.a().n(), self.b().s1(), self.b().s2(), self.b().n()),
//@|                                  unpaired_hi(confidence, self.a().s1(), self.a().s2(), self.a().n(), self.b().s1(), self.b().s2(), self.b().n()), r->Ok_0),
//@fn from_iter ret r
//@| requires data_a.len() < usize::MAX, data_b.len() < usize::MAX,
//@| ensures r is Ok, r->Ok_0.wf(), r->Ok_0.a().n() == data_a.len(), r->Ok_0.b().n() == data_b.len(),
//@|         r->Ok_0.a().s1() == sum_to(data_a@, data_a.len() as int), r->Ok_0.a().s2() == sumsq_to(data_a@, data_a.len() as int),
//@|         r->Ok_0.b().s1() == sum_to(data_b@, data_b.len() as int), r->Ok_0.b().s2() == sumsq_to(data_b@, data_b.len() as int),
//@endimpl

//@impl src/comparison.rs impl<T: Float> Unpaired<T>
//@fn ci ret r
//@| requires data_a.len() < usize::MAX, data_b.len() < usize::MAX, conf_valid(confidence),
//@| ensures data_a.len() >= 2 && data_b.len() >= 2 ==> r is Ok,
//@|         data_a.len() < 2 || data_b.len() < 2 ==> r is Err && r->Err_0 is TooFewSamples,
//@|         r is Ok ==> ci_by_kind(confidence,
//@|             unpaired_lo(confidence, sum_to(data_a@, data_a.len() as int), sumsq_to(data_a@, data_a.len() as int), data_a.len() as nat, sum_to(data_b@, data_b.len() as int), sumsq_to(data_b@, data_b.len() as int), data_b.len() as nat),
//@|             unpaired_hi(confidence, sum_to(data_a@, data_a.len() as int), sumsq_to(data_a@, data_a.len() as int), data_a.len() as nat, sum_to(data_b@, data_b.len() as int), sumsq_to(data_b@, data_b.len() as int), data_b.len() as nat), r->Ok_0),
//@endimpl
pub closed spec fn unpaired_merge(x: Unpaired, y: Unpaired) -> Unpaired { Unpaired { stats_a: arith_merge(x.stats_a, y.stats_a), stats_b: arith_merge(x.stats_b, y.stats_b) } }
pub proof fn lemma_unpaired_merge(x: Unpaired, y: Unpaired)
    ensures unpaired_merge(x, y).a() == arith_merge(x.a(), y.a()), unpaired_merge(x, y).b() == arith_merge(x.b(), y.b()),
{}
pub open spec fn unpaired_merge_req(x: Unpaired, y: Unpaired) -> bool {
    x.wf() && y.wf() && x.a().n() + y.a().n() <= usize::MAX && x.b().n() + y.b().n() <= usize::MAX
}
//@impl src/comparison.rs impl<F: Float> core::ops::Add for Unpaired<F>
//@fn add
//@endimpl
impl AddSpecImpl for Unpaired {
    open spec fn obeys_add_spec() -> bool { true }
    open spec fn add_req(self, rhs: Unpaired) -> bool { unpaired_merge_req(self, rhs) }
    open spec fn add_spec(self, rhs: Unpaired) -> Unpaired { unpaired_merge(self, rhs) }
}
//@impl src/comparison.rs impl<F: Float> core::ops::AddAssign for Unpaired<F>
//@fn add_assign
//@endimpl
impl AddAssignSpecImpl for Unpaired {
    open spec fn obeys_add_assign_spec() -> bool { true }
    open spec fn add_assign_req(self, rhs: Unpaired) -> bool { unpaired_merge_req(self, rhs) }
    open spec fn add_assign_spec(self, rhs: Unpaired) -> Unpaired { unpaired_merge(self, rhs) }
}

proof fn canary_must_fail() ensures false {}
} // mod code
} // verus!
fn main() {}
