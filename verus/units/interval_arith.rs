// Verus unit `interval_arith` -- ideal-real model: the arithmetic of src/interval.rs (scalar + - * /, unary minus through
// applied / scaled and their closures, interval + interval, interval - interval, relative_to), extracted at check time with the
// element type monomorphised to the ideal real R.  Serves C13.
//@mode ideal
use vstd::prelude::*;
use vstd::std_specs::ops::*;
use vstd::std_specs::cmp::*;
use core::ops::{Add, Div, Mul, Neg, Sub};
use core::cmp::Ordering;
verus! {
pub mod spec {
use super::*;
use super::code::*;
//@include prelude/real.rs
//@include prelude/interval_arith_spec.rs
//@include prelude/interval_arith_lemmas.rs
} // mod spec

pub mod code {
use super::*;
use super::spec::*;
broadcast use {ax_r_of, ax_r_ext};

//@item src/interval.rs enum Interval derive=Clone,Copy

// what `applied` promises for ANY function f: the bounds of the result are f's results on the bounds, placed by direction
pub open spec fn applied_post<F: Fn(R) -> R>(i: Interval<R>, f: F, increasing: bool, r: Interval<R>) -> bool {
    match (i, increasing) {
        (Interval::TwoSided(low, high), true) => r matches Interval::TwoSided(a, b) && f.ensures((low,), a) && f.ensures((high,), b),
        (Interval::TwoSided(low, high), false) => r matches Interval::TwoSided(a, b) && f.ensures((high,), a) && f.ensures((low,), b),
        (Interval::UpperOneSided(low), true) => r matches Interval::UpperOneSided(a) && f.ensures((low,), a),
        (Interval::UpperOneSided(low), false) => r matches Interval::LowerOneSided(a) && f.ensures((low,), a),
        (Interval::LowerOneSided(high), true) => r matches Interval::LowerOneSided(a) && f.ensures((high,), a),
        (Interval::LowerOneSided(high), false) => r matches Interval::UpperOneSided(a) && f.ensures((high,), a),
    }
}
pub open spec fn collapsed_post<F: Fn(R) -> R>(i: Interval<R>, f: F, r: Interval<R>) -> bool {
    match i {
        Interval::TwoSided(low, high) => r matches Interval::TwoSided(a, b) && f.ensures((low,), a) && f.ensures((high,), b),
        Interval::UpperOneSided(x) => r matches Interval::TwoSided(a, b) && f.ensures((x,), a) && f.ensures((x,), b),
        Interval::LowerOneSided(x) => r matches Interval::TwoSided(a, b) && f.ensures((x,), a) && f.ensures((x,), b),
    }
}
//@impl src/interval.rs impl<T: PartialOrd + Copy> Interval<T> mono=T => impl Interval<R>
//@fn applied ret r vis pub
//@| requires forall|x: R| f.requires((x,)),
//@| ensures applied_post(*self, f, increasing, r),
//@fn scaled ret r vis pub
//@| requires forall|x: R| f.requires((x,)),
//@| ensures rhs.v() > 0real ==> applied_post(*self, f, true, r),
//@|         rhs.v() < 0real ==> applied_post(*self, f, false, r),
//@|         rhs.v() == 0real ==> collapsed_post(*self, f, r),
//@endimpl

//@impl src/interval.rs impl<F: Mul<F, Output = F> + PartialOrd + Copy + num_traits::Zero> Mul<F> for Interval<F> mono=F => impl Mul<R> for Interval<R>
//@fn mul ret r
//@closure 0| (R) -> R
//@endimpl
impl MulSpecImpl<R> for Interval<R> {
    open spec fn obeys_mul_spec() -> bool { true }
    open spec fn mul_req(self, rhs: R) -> bool { true }
    open spec fn mul_spec(self, rhs: R) -> Interval<R> { mul_k(self, rhs.v()) }
}
//@impl src/interval.rs impl<F: Div<F, Output = F> + PartialOrd + Copy + num_traits::Zero> Div<F> for Interval<F> mono=F => impl Div<R> for Interval<R>
//@fn div ret r
//@closure 0| (R) -> R
//@endimpl
impl DivSpecImpl<R> for Interval<R> {
    open spec fn obeys_div_spec() -> bool { true }
    open spec fn div_req(self, rhs: R) -> bool { rhs.v() != 0real }
    open spec fn div_spec(self, rhs: R) -> Interval<R> { div_k(self, rhs.v()) }
}
//@impl src/interval.rs impl<F: Add<F, Output = F> + PartialOrd + Copy> Add<F> for Interval<F> mono=F => impl Add<R> for Interval<R>
//@fn add ret r
//@closure 0| (R) -> R
//@endimpl
impl AddSpecImpl<R> for Interval<R> {
    open spec fn obeys_add_spec() -> bool { true }
    open spec fn add_req(self, rhs: R) -> bool { true }
    open spec fn add_spec(self, rhs: R) -> Interval<R> { add_k(self, rhs.v()) }
}
//@impl src/interval.rs impl<F: Sub<F, Output = F> + PartialOrd + Copy> Sub<F> for Interval<F> mono=F => impl Sub<R> for Interval<R>
//@fn sub ret r
//@closure 0| (R) -> R
//@endimpl
impl SubSpecImpl<R> for Interval<R> {
    open spec fn obeys_sub_spec() -> bool { true }
    open spec fn sub_req(self, rhs: R) -> bool { true }
    open spec fn sub_spec(self, rhs: R) -> Interval<R> { sub_k(self, rhs.v()) }
}
//@impl src/interval.rs impl<F: Neg<Output = F> + PartialOrd + Copy> Neg for Interval<F> mono=F => impl Neg for Interval<R>
//@fn neg ret r
//@closure 0| (R) -> R
//@endimpl
impl NegSpecImpl for Interval<R> {
    open spec fn obeys_neg_spec() -> bool { true }
    open spec fn neg_req(self) -> bool { true }
    open spec fn neg_spec(self) -> Interval<R> { neg_i(self) }
}
//@impl src/interval.rs impl<F: Num + PartialOrd + Copy> Add for Interval<F> mono=F => impl Add for Interval<R>
//@fn add ret r
//@endimpl
impl AddSpecImpl for Interval<R> {
    open spec fn obeys_add_spec() -> bool { true }
    open spec fn add_req(self, rhs: Interval<R>) -> bool { add_ii_defined(self, rhs) }
    open spec fn add_spec(self, rhs: Interval<R>) -> Interval<R> { add_ii(self, rhs) }
}
//@impl src/interval.rs impl<F: Num + PartialOrd + Copy> Sub for Interval<F> mono=F => impl Sub for Interval<R>
//@fn sub ret r
//@endimpl
impl SubSpecImpl for Interval<R> {
    open spec fn obeys_sub_spec() -> bool { true }
    open spec fn sub_req(self, rhs: Interval<R>) -> bool { sub_ii_defined(self, rhs) }
    open spec fn sub_spec(self, rhs: Interval<R>) -> Interval<R> { sub_ii(self, rhs) }
}
//@impl src/interval.rs impl<T: num_traits::Float> Interval<T>
//@fn relative_to ret r
//@| requires rel_domain(*self, *reference),
//@| ensures r == rel_ii(*self, *reference),
//@endimpl

//@impl src/interval.rs impl<T: PartialOrd + Sub<Output = T> + num_traits::Zero + Clone> Interval<T> mono=T => impl Interval<R>
//@fn width ret r vis pub
//@| ensures match *self { Interval::TwoSided(l, h) => r is Some && r->Some_0.v() == h.v() - l.v(), _ => r is None },
//@endimpl

proof fn canary_must_fail() ensures false {}
} // mod code
} // verus!
fn main() {}
