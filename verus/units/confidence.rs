// Verus unit `confidence` -- ideal-real model: src/confidence.rs beyond what every ideal unit already carries (constructors, level,
// quantile, flipped, kind predicates are in prelude/base_code.rs): Default, PartialOrd::partial_cmp, TryFrom<f64>.  Serves C18 over
// the reals; the IEEE side (NaN, -0, the exact rejection boundary) is decided by the Kani harnesses over all f64 / f32 bit patterns.
//@mode ideal
use vstd::prelude::*;
use vstd::std_specs::ops::*;
use vstd::std_specs::cmp::*;
use vstd::std_specs::convert::*;
use core::ops::{Add, Div, Mul, Neg, Sub};
use core::cmp::Ordering;
verus! {
pub mod spec {
use super::*;
use super::code::*;
//@include prelude/real.rs
//@include prelude/base_spec.rs
// C18: two confidences are comparable exactly when they are of the same kind, and then they compare as their levels
pub open spec fn conf_cmp_spec(a: Confidence, b: Confidence) -> Option<Ordering> {
    let same = (a is TwoSided && b is TwoSided) || (a is UpperOneSided && b is UpperOneSided) || (a is LowerOneSided && b is LowerOneSided);
    if !same { None }
    else if conf_level(a) < conf_level(b) { Some(Ordering::Less) }
    else if conf_level(a) == conf_level(b) { Some(Ordering::Equal) }
    else { Some(Ordering::Greater) }
}
} // mod spec
pub mod code {
use super::*;
use super::spec::*;
broadcast use {ax_r_of, ax_r_ext};
//@include prelude/base_code.rs
//@impl src/confidence.rs impl Default for Confidence
//@fn default ret r
//@| ensures r is TwoSided, conf_level(r) == 0.95real, conf_valid(r),
//@endimpl
//@impl src/confidence.rs impl PartialOrd for Confidence => impl Confidence
//@fn partial_cmp ret r vis pub
//@| ensures r == conf_cmp_spec(*self, *other),
//@endimpl
//@impl src/confidence.rs impl TryFrom<f64> for Confidence
//@fn try_from ret r
//@endimpl
impl TryFromSpecImpl<R> for Confidence {
    open spec fn obeys_try_from_spec() -> bool { true }
    open spec fn try_from_spec(confidence: R) -> Result<Self, Self::Error> {
        if 0real < confidence.v() < 1real { Ok(Confidence::TwoSided(confidence)) } else { Err(CIError::InvalidConfidenceLevel(confidence)) }
    }
}
proof fn canary_must_fail() ensures false {}
} // mod code
} // verus!
fn main() {}
