// Verus unit `wilson_props` -- pure real-number lemmas about the Wilson bounds needed by C17 only (monotone in k, midpoint, narrower with n).
// Kept apart from the `proportion` unit so that the heaviest nonlinear lemma cannot destabilise the checks that re-verify code.
//@mode ideal
use vstd::prelude::*;
use vstd::std_specs::ops::*;
use vstd::std_specs::cmp::*;
use core::ops::{Add, Div, Mul, Neg, Sub};
use core::cmp::Ordering;
verus! {
pub mod spec {
use super::*;
//@include prelude/real.rs
//@include prelude/wilson_lemmas.rs
//@include prelude/wilson_lemmas_c17.rs
//@include prelude/lemmas_ratio.rs
} // mod spec
pub mod code {
use super::*;
use super::spec::*;
broadcast use {ax_r_of, ax_sqrt};
proof fn canary_must_fail() ensures false {}
} // mod code
} // verus!
fn main() {}
