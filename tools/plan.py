"""plan.py -- which Verus units / Kani harness families decide which property."""

COMMON_ASSUMPTIONS = [
    "tools: Verus 0.2026.09.13 + bundled Z3; Kani 0.68.0 + CBMC 6.11 + CaDiCaL; rustc monomorphisation",
    "extractor tools/extract.py (token-level slicer/rewriter) is audited by its own log, not verified",
]

IDEAL = ("ideal-real model: f32/f64 arithmetic treated as exact real arithmetic in the Verus units marked `ideal` "
         "(no rounding, no NaN/inf); IEEE behaviour is covered by the Kani harnesses only")
PARAMETRIC = ("parametricity: code generic in T: PartialOrd that only compares its elements is decided on i8 where Verus "
              "cannot read the function")

PLAN = {
    "C18": {
        "level": "proof",
        "kani": {"prefix": ["c18_"], "thorough_prefix": ["c18t_"]},
        "explanation": "loop-free Kani harnesses over all 2^64 f64 (2^32 f32) levels and all three kinds; each asserts the law as a postcondition of the real function",
        "assumptions": ["CBMC's IEEE-754 comparison/multiplication encoding"],
        "level_text": "Proof for all inputs: every constructor, conversion, accessor and comparison of Confidence is checked by loop-free Kani harnesses over all f64/f32 bit patterns and all three kinds (a loop-free full-domain harness is a complete proof, not a bounded one); 'never returns on an invalid level' is a should_panic harness whose cover after the call is unreachable.",
        "level_note": "Trusted: Kani/CBMC and its IEEE-754 encoding; rustc. kani::assume only restricts to the valid/invalid level classes and each is guarded by a cover.",
        "technique": "Kani full-domain loop-free harnesses asserting postconditions of the real functions (bit-precise f64/f32)",
    },
    "C07": {
        "level": "proof",
        "verus": [{"unit": "interval", "functions": ["contains", "intersects", "includes", "is_included_in",
                                                      "lemma_incl_is_superset", "lemma_meet_is_intersection", "lemma_meet_symmetric",
                                                      "lemma_incl_reflexive_transitive", "lemma_ord", "lemma_trans", "lemma_above2", "lemma_below2"],
                   "must_have": ["contains", "intersects", "includes", "is_included_in", "lemma_incl_is_superset", "lemma_meet_is_intersection"]}],
        "kani": {"prefix": ["c07_"], "thorough_prefix": ["c07t_"]},
        "pairs": {"intersects": "c07_intersects_is_nonempty_meet", "includes": "c07_includes_is_superset", "contains": "c07_contains_is_membership",
                  "is_included_in": "c07_is_included_in_is_subset"},
        "assumptions": [PARAMETRIC],
        "level_text": "Proof for every totally ordered element type: contains/includes/intersects/is_included_in are extracted verbatim (generic T) and verified by Verus against quantifier-free set relations written from the denotations, and lemmas prove those relations equal membership / superset / non-empty intersection of the denoted closed sets for any total order without end points. Kani repeats the statements bit-precisely on i8 (all 3x3 kinds, universal probe point) and decides the RangeBounds view and float +-0/inf cases.",
        "level_note": "Trusted: Verus/Z3, Kani/CBMC, the extractor; vstd's specification of `<=`/`>=` on &T via partial_cmp_spec; total_order/unbounded are hypotheses of the lemmas (stated, not assumed globally). The RangeBounds and float clauses are decided at i8/f32 only.",
        "technique": "Verus contracts on the extracted generic functions + set-relation lemmas; Kani complete harnesses at i8/f32",
    },
    "C13": {
        "level": "proof",
        "kani": {"prefix": ["c13_"], "thorough_prefix": ["c13t_"]},
        "assumptions": [PARAMETRIC, "integer overflow in bound computations excluded by precondition (kani::assume on the i16 images)"],
        "level_text": "Proof at i8 (all intervals, all scalars, all members): one loop-free Kani harness per operation x kind asserts soundness (universal member), tightness (finite bounds are images of bounds), well-formedness and the kind of the result for A+k, A-k, A*k, A/k, -A, and one per compatible kind pair for A+B, A-B. relative_to is a BOUNDED stand-in (bounds and members on the f32 grid 0..16), never counted as proved.",
        "level_note": "Trusted: Kani/CBMC. Generic statement rests on parametricity in the element type (the code only uses the operator and comparisons). relative_to: bounded(grid 0..=16 as f32). Overflow of the element type is excluded by precondition.",
        "technique": "Kani complete harnesses at i8 per operation x kind; bounded grid harness for relative_to",
    },
    "C15": {
        "level": "proof",
        "kani": {"prefix": ["c15_"], "thorough_prefix": ["c15t_"]},
        "assumptions": [PARAMETRIC],
        "level_text": "Proof at i8: partial_cmp (or-patterns with guards, outside Verus' subset) is checked by loop-free Kani harnesses over all pairs/triples of well-formed intervals of all kinds against a specification written from the property (Equal iff ==; Less iff != and sup(a) <= inf(b), tied to members by universal probes and extreme witnesses; antisymmetry; transitivity; incomparability).",
        "level_note": "Trusted: Kani/CBMC; parametricity in T: PartialOrd (an i8 chain of 256 points realises every relative order of six bounds).",
        "technique": "Kani complete harnesses over all i8 interval pairs/triples",
    },
    "C14": {
        "level": "proof",
        "verus": [{"unit": "interval", "functions": ["new", "new_upper", "new_lower", "is_two_sided", "is_one_sided", "is_upper", "is_lower", "left", "right"],
                   "must_have": ["new", "left", "right"]}],
        "kani": {"prefix": ["c14_"], "thorough_prefix": ["c14t_"]},
        "pairs": {"new": "c14_new_wellformed_i8"},
        "assumptions": [PARAMETRIC],
        "level_text": "Proof: Interval::new, new_upper/new_lower, the kind predicates and left/right are extracted verbatim (generic T) and verified by Verus against contracts stating exactly which value is returned; Kani decides every constructor and conversion path (tuple, option pair with round trip, ranges, macro-generated tuple conversions for all 12 integer types and both float types, float/int/unsigned projections, width, is_degenerate, PartialEq across kinds, Hash through a recording hasher) with loop-free harnesses over all i8 (and all f32 bit patterns, NaN included, for well-formedness).",
        "level_note": "Trusted: Verus/Z3, Kani/CBMC, the extractor; parametricity in T for the conversions decided at i8. The Hash harness is bounded by the 24-byte recording buffer (unwind 26; writes beyond it would fail the unwinding assertion).",
        "technique": "Verus contracts on extracted generic constructors/accessors; Kani complete harnesses at i8/f32 and all integer widths",
    },
}
