#!/usr/bin/env python3
"""extract.py -- build a Verus unit from the CURRENT /repo sources.

A unit template (verus/units/<unit>.rs) is Verus source text with directive
lines.  Everything that is not a directive is copied through (that is where the
prelude, spec functions and lemmas live).  Directives pull items out of
/repo/src *at run time* and splice contracts onto them:

  //@mode exact|ideal
  //@item <file> <kind> <name> [derive=<A,B>] [as <NewName>]
  //@impl <file> <header as written in the repo, whitespace-insensitive> [=> <emitted header>]
  //@fn <name> [ret <r>] [vis <pub|pub(crate)|none>]
  //@| <contract line: requires / ensures / decreases ...>
  //@loop <n>| <loop spec line: invariant ..., decreases ...>     (n = loop ordinal in the fn, from 0)
  //@prologue| <ghost line inserted at the very start of the body>      (proof blocks only)
  //@endimpl
  //@freefn <file> <name> [ret <r>]        (followed by //@| and //@loop lines)
  //@const <file> <name>                   (float constant -> nullary exec fn, see R6)

What is changed relative to the repository text is *only* (each counted in the log):
  D1 doc comments and plain comments inside headers dropped; D2 attributes dropped
  (derive lists are replaced by the list the directive gives);
  S1 return value named; S2 requires/ensures spliced between signature and body;
  S3 loop specs spliced; for-loops get a ghost iterator name `it`;
  and in `ideal` mode the rewrite rules R1..R6 (see DESIGN.md 3.1).
Bodies are otherwise token-for-token the repository's.  Anything the rules do
not know makes the tool stop with exit status 2 ("unsupported construct").
"""
import json
import os
import re
import sys

sys.path.insert(0, os.path.dirname(os.path.abspath(__file__)))
import rustlex as L  # noqa: E402

REPO = os.environ.get("VERIF_REPO", "/repo")


class Unsupported(Exception):
    pass


# --------------------------------------------------------------------------
# token helpers


def code_toks(toks):
    return [t for t in toks if not L.is_trivia(t)]


def strip_docs_attrs(toks):
    """drop doc comments, comments and attributes from a token list (D1, D2)."""
    out = []
    i = 0
    n = len(toks)
    dropped_attr = 0
    dropped_doc = 0
    while i < n:
        t = toks[i]
        if t.kind in (L.LCOMMENT, L.BCOMMENT):
            dropped_doc += 1
            i += 1
            continue
        if t.kind == L.PUNCT and t.text == "#":
            j = L.skip_trivia(toks, i + 1, n)
            if j < n and toks[j].text == "[":
                k = L.match_close(toks, j)
                dropped_attr += 1
                i = k + 1
                continue
        out.append(t)
        i += 1
    return out, dropped_doc, dropped_attr


def text_of(toks):
    return "".join(t.text for t in toks)


def find_fn_parts(toks):
    """toks = tokens of a fn item (from `fn`-qualifiers to closing brace), docs/attrs stripped.
    returns dict of indices: name, params_open, params_close, arrow(or None), ret_start, ret_end,
    where(or None), body_open."""
    n = len(toks)
    i = 0
    while i < n and not (toks[i].kind == L.IDENT and toks[i].text == "fn"):
        i += 1
    if i >= n:
        raise Unsupported("no fn keyword")
    fn_kw = i
    i = L.skip_trivia(toks, i + 1, n)
    name = i
    i = L.skip_trivia(toks, i + 1, n)
    gen_open = gen_close = None
    if toks[i].text == "<":
        gen_open = i
        depth = 0
        while True:
            if toks[i].text == "<":
                depth += 1
            elif toks[i].text == ">":
                depth -= 1
                if depth == 0:
                    break
            i += 1
        gen_close = i
        i = L.skip_trivia(toks, i + 1, n)
    if toks[i].text != "(":
        raise Unsupported("fn %s: cannot find parameter list" % toks[name].text)
    params_open = i
    params_close = L.match_close(toks, i)
    i = L.skip_trivia(toks, params_close + 1, n)
    arrow = ret_start = ret_end = where = None
    # body open: first `{` at depth 0 after params
    j = i
    body_open = None
    depth_angle = 0
    while j < n:
        t = toks[j]
        if t.kind == L.PUNCT and t.text in ("(", "["):
            j = L.match_close(toks, j)
        elif t.kind == L.PUNCT and t.text == "{":
            body_open = j
            break
        elif t.kind == L.IDENT and t.text == "where" and where is None:
            where = j
        j += 1
    if body_open is None:
        raise Unsupported("fn %s has no body" % toks[name].text)
    if toks[i].text == "->":
        arrow = i
        ret_start = L.skip_trivia(toks, i + 1, n)
        ret_end = where if where is not None else body_open
        # trim trailing trivia
        while ret_end > ret_start and L.is_trivia(toks[ret_end - 1]):
            ret_end -= 1
    return dict(fn_kw=fn_kw, name=name, gen_open=gen_open, gen_close=gen_close, params_open=params_open,
                params_close=params_close, arrow=arrow, ret_start=ret_start, ret_end=ret_end, where=where,
                body_open=body_open)


LOOP_KW = ("for", "while", "loop")


def find_loops(toks, body_open):
    """indices (keyword idx, header end = idx of `{` opening the loop body) of loops in body, in source order."""
    loops = []
    n = len(toks)
    i = body_open + 1
    while i < n:
        t = toks[i]
        if t.kind == L.IDENT and t.text in LOOP_KW:
            # `for` in `for<'a>` (HRTB) is followed by `<`
            j = L.skip_trivia(toks, i + 1, n)
            if t.text == "for" and toks[j].text == "<":
                i += 1
                continue
            # find the `{` that opens the loop body: first `{` at depth 0 (parens tracked),
            # struct literals are not allowed in loop headers without parens in Rust.
            k = i + 1
            while k < n:
                tk = toks[k]
                if tk.kind == L.PUNCT and tk.text in ("(", "["):
                    k = L.match_close(toks, k)
                elif tk.kind == L.PUNCT and tk.text == "{":
                    break
                k += 1
            loops.append((i, k))
        i += 1
    return loops


# --------------------------------------------------------------------------
# ideal-mode rewrite rules

MONO_TYPES = {"KahanSum", "Arithmetic", "Harmonic", "Geometric", "Paired", "Unpaired"}


def float_literal_to_rlit(text):
    """'2.' -> R::lit(2, 1); '0.5' -> R::lit(5, 10); '100_000.' -> R::lit(100000, 1); '1e-3' unsupported"""
    s = text.replace("_", "")
    m = re.fullmatch(r"([0-9]+)\.([0-9]*)(f64|f32)?", s)
    if not m:
        raise Unsupported("float literal form %r" % text)
    ip, fp = m.group(1), m.group(2)
    num = int(ip + fp) if (ip + fp) else 0
    den = 10 ** len(fp)
    return "R::lit(%d, %d)" % (num, den)


def is_float_literal(t):
    if t.kind != L.NUM:
        return False
    s = t.text
    if s.startswith(("0x", "0b", "0o")):
        return False
    return ("." in s) or bool(re.search(r"[0-9](f32|f64)$", s)) or bool(re.search(r"[0-9][eE][+-]?[0-9]", s))


def operand_start(toks, as_idx):
    """index where the operand of `as` at toks[as_idx] starts (postfix/primary expression)."""
    i = as_idx - 1
    while i >= 0 and L.is_trivia(toks[i]):
        i -= 1
    # walk back over a postfix chain
    while True:
        t = toks[i]
        if t.kind == L.PUNCT and t.text in (")", "]"):
            # find matching open
            depth = 0
            j = i
            while j >= 0:
                if toks[j].kind == L.PUNCT and toks[j].text in (")", "]", "}"):
                    depth += 1
                elif toks[j].kind == L.PUNCT and toks[j].text in ("(", "[", "{"):
                    depth -= 1
                    if depth == 0:
                        break
                j -= 1
            i = j
            # call or index: preceded by ident/path?
            k = i - 1
            while k >= 0 and L.is_trivia(toks[k]):
                k -= 1
            if k >= 0 and (toks[k].kind == L.IDENT and toks[k].text not in ("as", "in", "if", "match", "return", "while")
                           or toks[k].text in (")", "]", ">")):
                if toks[k].text == ">":
                    raise Unsupported("turbofish before cast operand")
                i = k
                continue
            return i
        elif t.kind in (L.IDENT, L.NUM):
            k = i - 1
            while k >= 0 and L.is_trivia(toks[k]):
                k -= 1
            if k >= 0 and toks[k].kind == L.PUNCT and toks[k].text in (".", "::"):
                k2 = k - 1
                while k2 >= 0 and L.is_trivia(toks[k2]):
                    k2 -= 1
                i = k2
                continue
            return i
        else:
            raise Unsupported("cast operand shape at line %d" % t.line)


class Rewriter:
    """token-level rewrites for the ideal-real model; counts per rule."""

    def __init__(self, float_param=None, iter_params=(), consts=()):
        self.fp = float_param
        self.iter_params = dict(iter_params) if isinstance(iter_params, dict) else {k: None for k in iter_params}
        self.consts = set(consts)
        self.counts = {}

    def bump(self, rule, k=1):
        self.counts[rule] = self.counts.get(rule, 0) + k

    def r8_nan(self, toks):
        out = []
        i, n = 0, len(toks)
        while i < n:
            if toks[i].kind == L.IDENT and toks[i].text == "f64":
                j = L.skip_trivia(toks, i + 1, n)
                k = L.skip_trivia(toks, j + 1, n) if j < n else n
                if j < n and toks[j].text == "::" and k < n and toks[k].text == "consts":
                    k2 = L.skip_trivia(toks, k + 1, n)
                    k3 = L.skip_trivia(toks, k2 + 1, n) if k2 < n else n
                    if k2 < n and toks[k2].text == "::" and k3 < n and toks[k3].text in ("SQRT_2",):
                        # `core::f64::consts::SQRT_2` (a leading `core::` / `std::` is dropped by R7 before this rule sees it)
                        while out and (L.is_trivia(out[-1]) or out[-1].text in ("::", "core", "std")):
                            out.pop()
                        out.append(L.Tok(L.IDENT, "%s_const()" % toks[k3].text, toks[i].line))
                        self.bump("R8")
                        i = k3 + 1
                        continue
                assoc = {"NAN": "R::nan()", "EPSILON": "R::epsilon()", "INFINITY": "R::infinity()", "NEG_INFINITY": "R::neg_infinity()"}
                if j < n and toks[j].text == "::" and k < n and toks[k].text in assoc:
                    out.append(L.Tok(L.IDENT, assoc[toks[k].text], toks[i].line))
                    self.bump("R8")
                    i = k + 1
                    continue
            out.append(toks[i])
            i += 1
        return out

    def run(self, toks):
        toks = self.r8_nan(toks)
        toks = self.r3_casts(toks)
        toks = self.r5_map_err(toks)
        out = []
        n = len(toks)
        i = 0
        while i < n:
            t = toks[i]
            if t.kind == L.IDENT:
                # R1: mono types drop `<F>` / `::<F>`
                if t.text in MONO_TYPES:
                    j = L.skip_trivia(toks, i + 1, n)
                    k = j
                    if k < n and toks[k].text == "::":
                        k2 = L.skip_trivia(toks, k + 1, n)
                        if k2 < n and toks[k2].text == "<":
                            k = k2
                    if k < n and toks[k].text == "<":
                        a = L.skip_trivia(toks, k + 1, n)
                        b = L.skip_trivia(toks, a + 1, n)
                        if toks[b].text == ">" and toks[a].kind == L.IDENT and (
                                toks[a].text in (self.fp, "f64", "f32", "R", "_")):
                            out.append(t)
                            self.bump("R1")
                            i = b + 1
                            continue
                    out.append(t)
                    i += 1
                    continue
                if t.text in ("f64",) or (self.fp and t.text == self.fp):
                    # not a field / method name
                    p = len(out) - 1
                    while p >= 0 and L.is_trivia(out[p]):
                        p -= 1
                    if p >= 0 and out[p].text == ".":
                        out.append(t)
                    else:
                        out.append(L.Tok(L.IDENT, "R", t.line))
                        self.bump("R1")
                    i += 1
                    continue
                if t.text in self.iter_params:
                    item = self.iter_params[t.text] or "R"
                    item = re.sub(r"\bf64\b", "R", item)
                    if self.fp:
                        item = re.sub(r"\b%s\b" % re.escape(self.fp), "R", item)
                    out.append(L.Tok(L.IDENT, "Vec<%s>" % item, t.line))
                    self.bump("R4")
                    i += 1
                    continue
                if t.text in self.consts:
                    out.append(t)
                    out.append(L.Tok(L.PUNCT, "()", t.line))
                    self.bump("R6")
                    i += 1
                    continue
                if t.text in ("utils", "mean", "error", "stats", "interval", "proportion", "crate", "statrs", "function", "erf", "distribution") and not (len(out) and out[-1].text == "."):
                    # R7: module path prefixes are flattened (the unit is one module)
                    j = L.skip_trivia(toks, i + 1, n)
                    if j < n and toks[j].text == "::":
                        self.bump("R7")
                        i = j + 1
                        continue
                out.append(t)
                i += 1
            elif is_float_literal(t):
                out.append(L.Tok(L.IDENT, float_literal_to_rlit(t.text), t.line))
                self.bump("R2")
                i += 1
            else:
                out.append(t)
                i += 1
        return out

    def r3_casts(self, toks):
        """`e as f64` -> `R::from_usize(e)`;  `e as usize` -> `(e).to_usize()` (only float->usize casts occur)."""
        while True:
            n = len(toks)
            hit = None
            for i, t in enumerate(toks):
                if t.kind == L.IDENT and t.text == "as":
                    j = L.skip_trivia(toks, i + 1, n)
                    if toks[j].kind == L.IDENT and toks[j].text in ("f64", "usize"):
                        hit = (i, j)
                        break
                    raise Unsupported("cast to %s at line %d" % (toks[j].text, t.line))
            if hit is None:
                return toks
            i, j = hit
            s = operand_start(toks, i)
            # drop trivia between operand end and `as`
            e = i
            while e > s and L.is_trivia(toks[e - 1]):
                e -= 1
            operand = toks[s:e]
            if toks[j].text == "f64":
                new = [L.Tok(L.IDENT, "R::from_usize", toks[i].line), L.Tok(L.PUNCT, "(", toks[i].line)] + operand + [
                    L.Tok(L.PUNCT, ")", toks[i].line)]
            else:
                new = operand + [L.Tok(L.IDENT, ".to_usize()", toks[i].line)]
            self.bump("R3")
            toks = toks[:s] + new + toks[j + 1:]

    def r5_map_err(self, toks):
        """`.map_err(|e| e.into())` -> `.map_err_into()`"""
        pat = [".", "map_err", "(", "|", "e", "|", "e", ".", "into", "(", ")", ")"]
        out = []
        i = 0
        n = len(toks)
        while i < n:
            # try match ignoring trivia
            k = i
            m = 0
            idxs = []
            while m < len(pat) and k < n:
                if L.is_trivia(toks[k]):
                    k += 1
                    continue
                if toks[k].text != pat[m]:
                    break
                idxs.append(k)
                m += 1
                k += 1
            if m == len(pat):
                out.append(L.Tok(L.IDENT, ".map_err_into()", toks[i].line))
                self.bump("R5")
                i = k
            else:
                out.append(toks[i])
                i += 1
        return out



# --------------------------------------------------------------------------
# match-arm rules (R14 or-pattern expansion under a guard, R15 reference patterns), closure specs (S5)


def _split_top(toks, s, e, sep):
    """split toks[s:e] at depth-0 occurrences of the punctuation `sep`; returns list of (s, e) ranges"""
    parts, depth, cur = [], 0, s
    for i in range(s, e):
        t = toks[i]
        if t.kind == L.PUNCT and t.text in ("(", "[", "{"):
            depth += 1
        elif t.kind == L.PUNCT and t.text in (")", "]", "}"):
            depth -= 1
        elif depth == 0 and t.kind == L.PUNCT and t.text == sep:
            parts.append((cur, i))
            cur = i + 1
    parts.append((cur, e))
    return parts


def find_matches(toks):
    """(match kw idx, scrutinee start, `{` idx, `}` idx) of every `match` expression, in source order"""
    res = []
    n = len(toks)
    for i, t in enumerate(toks):
        if t.kind == L.IDENT and t.text == "match":
            p = i - 1
            while p >= 0 and L.is_trivia(toks[p]):
                p -= 1
            if p >= 0 and toks[p].text == ".":
                continue
            k = i + 1
            while k < n:
                if toks[k].kind == L.PUNCT and toks[k].text in ("(", "["):
                    k = L.match_close(toks, k)
                elif toks[k].kind == L.PUNCT and toks[k].text == "{":
                    break
                k += 1
            if k < n:
                res.append((i, L.skip_trivia(toks, i + 1, n), k, L.match_close(toks, k)))
    return res


def parse_arms(toks, o, c):
    """arms of the match block toks[o] == `{` .. toks[c] == `}`: dicts pat=(s,e) guard=(s,e)|None body=(s,e) end"""
    arms = []
    i = L.skip_trivia(toks, o + 1, c)
    while i < c:
        s = i
        depth = 0
        guard_kw = None
        k = i
        while k < c:
            t = toks[k]
            if t.kind == L.PUNCT and t.text in ("(", "[", "{"):
                k = L.match_close(toks, k)
            elif t.kind == L.IDENT and t.text == "if" and guard_kw is None:
                guard_kw = k
            elif t.kind == L.PUNCT and t.text == "=>":
                break
            k += 1
        if k >= c:
            raise Unsupported("match arm without `=>`")
        arrow = k
        pe = guard_kw if guard_kw is not None else arrow
        while pe > s and L.is_trivia(toks[pe - 1]):
            pe -= 1
        guard = None
        if guard_kw is not None:
            ge = arrow
            while ge > guard_kw and L.is_trivia(toks[ge - 1]):
                ge -= 1
            guard = (L.skip_trivia(toks, guard_kw + 1, arrow), ge)
        b = L.skip_trivia(toks, arrow + 1, c)
        if toks[b].kind == L.PUNCT and toks[b].text == "{":
            be = L.match_close(toks, b) + 1
            nx = L.skip_trivia(toks, be, c)
            end = nx + 1 if nx < c and toks[nx].text == "," else be
        else:
            k = b
            while k < c:
                t = toks[k]
                if t.kind == L.PUNCT and t.text in ("(", "[", "{"):
                    k = L.match_close(toks, k)
                elif t.kind == L.PUNCT and t.text == ",":
                    break
                k += 1
            be = k
            while be > b and L.is_trivia(toks[be - 1]):
                be -= 1
            end = k + 1 if k < c else c
        arms.append(dict(pat=(s, pe), guard=guard, body=(b, be), end=end, start=s))
        i = L.skip_trivia(toks, end, c)
    return arms


def pattern_alternatives(toks, s, e):
    """alternatives denoted by the pattern toks[s:e]: a top-level `A | B`, or a tuple whose components are such
    alternations (cartesian product, leftmost component varying slowest = the order Rust tries them in)."""
    def txt(a, b):
        return text_of(toks[a:b]).strip()
    tops = _split_top(toks, s, e, "|")
    if len(tops) > 1:
        out = []
        for a, b in tops:
            a2 = L.skip_trivia(toks, a, b)
            out.extend(pattern_alternatives(toks, a2, b))
        return out
    a = L.skip_trivia(toks, s, e)
    b = e
    while b > a and L.is_trivia(toks[b - 1]):
        b -= 1
    if a < b and toks[a].text == "(" and L.match_close(toks, a) == b - 1:
        comps = [cp for cp in _split_top(toks, a + 1, b - 1, ",") if txt(*cp)]
        alts = [pattern_alternatives(toks, x, y) for x, y in comps]
        res = [""]
        for al in alts:
            res = [r + (", " if r else "") + x for r in res for x in al]
        return ["(" + r + ")" for r in res]
    return [txt(a, b)]


def has_top_or(toks, s, e):
    if len(_split_top(toks, s, e, "|")) > 1:
        return True
    a = L.skip_trivia(toks, s, e)
    b = e
    while b > a and L.is_trivia(toks[b - 1]):
        b -= 1
    if a < b and toks[a].text == "(" and L.match_close(toks, a) == b - 1:
        return any(has_top_or(toks, x, y) for x, y in _split_top(toks, a + 1, b - 1, ","))
    return False


def r14_or_guard(toks, log):
    """R14: a match arm `P1 | P2 if G => E` (alternation at top level or inside a tuple pattern) -> one arm per
    alternative, each with the same guard and body, in the order Rust tries the alternatives (Verus does not accept an
    or-pattern together with a guard; Rust defines the arm as exactly this sequence of attempts)."""
    changed = True
    while changed:
        changed = False
        for kw, ss, o, c in find_matches(toks):
            for arm in parse_arms(toks, o, c):
                if arm["guard"] is not None and has_top_or(toks, *arm["pat"]):
                    alts = pattern_alternatives(toks, *arm["pat"])
                    g = text_of(toks[arm["guard"][0]:arm["guard"][1]])
                    b = text_of(toks[arm["body"][0]:arm["body"][1]])
                    line = toks[arm["start"]].line
                    new = []
                    for al in alts:
                        new.extend(L.lex("%s if %s => %s,\n            " % (al, g, b)))
                    for t_ in new:
                        t_.line = line
                    toks = toks[:arm["start"]] + new + toks[arm["end"]:]
                    log["rules"]["R14"] = log["rules"].get("R14", 0) + 1
                    changed = True
                    break
            if changed:
                break
    return toks


def r15_ref_patterns(toks, log):
    """R15: `match (a, b) { (&P, &Q) => .. }` on a tuple of references to Copy values -> `match (*a, *b) { (P, Q) => .. }`
    (Verus has no reference patterns; for Copy pointees the bindings denote the same values, by value instead of by
    reference).  Applies only when some arm pattern of the match starts a component with `&`."""
    for kw, ss, o, c in find_matches(toks):
        arms = parse_arms(toks, o, c)
        amp = [i for arm in arms for i in range(arm["pat"][0], arm["pat"][1]) if toks[i].kind == L.PUNCT and toks[i].text == "&"]
        if not amp:
            continue
        # scrutinee must be a tuple of plain identifiers
        se = o
        while se > ss and L.is_trivia(toks[se - 1]):
            se -= 1
        if not (toks[ss].text == "(" and L.match_close(toks, ss) == se - 1):
            raise Unsupported("reference patterns on a scrutinee that is not a tuple")
        comps = _split_top(toks, ss + 1, se - 1, ",")
        names = []
        for a, b in comps:
            ct = [t for t in toks[a:b] if not L.is_trivia(t)]
            if len(ct) != 1 or ct[0].kind != L.IDENT:
                raise Unsupported("reference patterns on a scrutinee component that is not an identifier")
            names.append(ct[0].text)
        drop = set(amp)
        new = []
        for i, t in enumerate(toks):
            if i in drop:
                continue
            if ss <= i < se:
                if i == ss:
                    new.extend(L.lex("(" + ", ".join("*" + nm for nm in names) + ")"))
                continue
            new.append(t)
        log["rules"]["R15"] = log["rules"].get("R15", 0) + 1
        return r15_ref_patterns(new, log)
    return toks


def s5_closure_specs(toks, specs, fn_name, log):
    """S5: the n-th closure literal `|x| EXPR` passed as a call argument gets the parameter / result types the directive
    names and ITS OWN BODY as postcondition: `|x: A| -> (r__: B) ensures r__ == EXPR { EXPR }`.  Nothing is assumed:
    Verus checks the closure body against that postcondition like any other function.  A directive may instead state the
    postcondition itself (`| ensures ...` over the result r__), which Verus likewise checks against the real body."""
    if not specs:
        return toks
    # closure literals: `|` directly after `(` or `,`
    found = []
    n = len(toks)
    for i, t in enumerate(toks):
        if t.kind == L.PUNCT and t.text == "|":
            p = i - 1
            while p >= 0 and L.is_trivia(toks[p]):
                p -= 1
            if p >= 0 and toks[p].text in ("(", ","):
                j = i + 1
                while j < n and not (toks[j].kind == L.PUNCT and toks[j].text == "|"):
                    j += 1
                # body: up to the `,` or `)` closing the argument
                k = L.skip_trivia(toks, j + 1, n)
                b0 = k
                while k < n:
                    tk = toks[k]
                    if tk.kind == L.PUNCT and tk.text in ("(", "[", "{"):
                        k = L.match_close(toks, k)
                    elif tk.kind == L.PUNCT and tk.text in (",", ")"):
                        break
                    k += 1
                found.append((i, j, b0, k))
    out = list(toks)
    for ordinal in sorted(specs, reverse=True):
        if ordinal >= len(found):
            raise Unsupported("lost anchor: fn %s has %d closure literals, spec names closure %d" % (fn_name, len(found), ordinal))
        i, j, b0, k = found[ordinal]
        params, ret, given_post = specs[ordinal]
        body = text_of(out[b0:k]).strip()
        names = [tt.text for tt in out[i + 1:j] if tt.kind == L.IDENT]
        # the directive gives the parameter TYPES (`(A, B)`, or `(x: A, y: B)` whose names are ignored); the names are the source's,
        # so renaming a closure parameter in the repository changes nothing; `$0`, `$1` in a stated postcondition stand for them
        types = [q.split(":")[-1].strip() for q in params.split(",") if q.strip()]
        if len(types) != len(names) or any(tt.text == ":" for tt in out[i + 1:j]):
            raise Unsupported("closure %d of fn %s: %d untyped parameters expected, source has `%s`" % (ordinal, fn_name, len(types), text_of(out[i:j + 1])))
        params = ", ".join("%s: %s" % (nm, ty) for nm, ty in zip(names, types))
        if given_post:
            for k_, nm in enumerate(names):
                given_post = given_post.replace("$%d" % k_, nm)
        # the postcondition is the body itself written with the spec names of the operators (Verus' spec mode has no
        # operator overloading for user types): `a OP b` -> a.OP_spec(b), `-a` -> a.neg_spec(); other shapes are not handled
        bt = [tt for tt in out[b0:k] if not L.is_trivia(tt)]
        if given_post:
            # the directive states the closure's postcondition (over the result r__); Verus checks the real body against it
            new = "|%s| -> (r__: %s) ensures %s { %s }" % (params, ret, given_post, body)
            out = out[:i] + [L.Tok(L.IDENT, new, out[i].line)] + out[k:]
            log["rules"]["S5"] = log["rules"].get("S5", 0) + 1
            continue
        opn = {"+": "AddSpec::add_spec", "-": "SubSpec::sub_spec", "*": "MulSpec::mul_spec", "/": "DivSpec::div_spec"}
        if len(bt) == 3 and bt[0].kind == L.IDENT and bt[2].kind == L.IDENT and bt[1].text in opn:
            post = "vstd::std_specs::ops::%s(%s, %s)" % (opn[bt[1].text], bt[0].text, bt[2].text)
        elif len(bt) == 2 and bt[0].text == "-" and bt[1].kind == L.IDENT:
            post = "vstd::std_specs::ops::NegSpec::neg_spec(%s)" % bt[1].text
        else:
            raise Unsupported("closure %d of fn %s: body `%s` is not `a OP b` or `-a`" % (ordinal, fn_name, body))
        new = "|%s| -> (r__: %s) ensures r__ == %s { %s }" % (params, ret, post, body)
        out = out[:i] + [L.Tok(L.IDENT, new, out[i].line)] + out[k:]
        log["rules"]["S5"] = log["rules"].get("S5", 0) + 1
    return out


def drop_mono_predicates(toks, fp):
    """R1 (where clauses): predicates whose subject is the monomorphised parameter (`T: num_traits::Zero`) are dropped."""
    parts = find_fn_parts(toks)
    if parts["where"] is None or not fp:
        return toks
    w, b = parts["where"], parts["body_open"]
    preds = [(x, y) for x, y in _split_top(toks, w + 1, b, ",") if text_of(toks[x:y]).strip()]
    keep = []
    dropped = 0
    for x, y in preds:
        ct = [t for t in toks[x:y] if not L.is_trivia(t)]
        if len(ct) >= 2 and ct[0].kind == L.IDENT and ct[0].text == fp and ct[1].text == ":":
            dropped += 1
        else:
            keep.append(text_of(toks[x:y]).strip())
    if not dropped:
        return toks
    new_where = L.lex("\n    where " + ", ".join(keep) + "\n    ") if keep else [L.Tok(L.WS, " ", toks[w].line)]
    return toks[:w] + new_where + toks[b:]


# --------------------------------------------------------------------------


def _guards_to_else(body):
    """guard clauses at the top level of a function body, `if C { return E; } REST`, rewritten as `if C { E } else { REST }`
    (the same control flow without `return`), repeatedly; anything else is left alone."""
    n = len(body)
    i = 0
    stmt_start = True
    while i < n:
        t = body[i]
        if L.is_trivia(t):
            i += 1
            continue
        if stmt_start and t.kind == L.IDENT and t.text == "if":
            # condition up to the block
            k = i + 1
            while k < n and not (body[k].kind == L.PUNCT and body[k].text == "{"):
                if body[k].kind == L.PUNCT and body[k].text in ("(", "["):
                    k = L.match_close(body, k)
                k += 1
            if k >= n:
                return body
            c = L.match_close(body, k)
            inner = [x for x in body[k + 1:c] if not L.is_trivia(x)]
            nx = L.skip_trivia(body, c + 1, n)
            if inner and inner[0].text == "return" and not (nx < n and body[nx].text == "else"):
                # the returned expression: tokens after `return` up to an optional final `;`
                r0 = next(j for j in range(k + 1, c) if body[j].kind == L.IDENT and body[j].text == "return")
                e1 = c
                while e1 > r0 and (L.is_trivia(body[e1 - 1]) or body[e1 - 1].text == ";"):
                    e1 -= 1
                if any(x.kind == L.PUNCT and x.text == ";" for x in body[r0 + 1:e1] if not L.is_trivia(x)) and False:
                    return body
                rest = _guards_to_else(body[c + 1:])
                return (body[:k + 1] + body[r0 + 1:e1] + L.lex(" } else {") + rest + L.lex("}"))
            # a different `if`: skip its blocks
            i = c + 1
            while True:
                nx = L.skip_trivia(body, i, n)
                if nx < n and body[nx].text == "else":
                    k2 = nx + 1
                    while k2 < n and not (body[k2].kind == L.PUNCT and body[k2].text == "{"):
                        k2 += 1
                    i = L.match_close(body, k2) + 1
                else:
                    break
            stmt_start = True
            continue
        if t.kind == L.PUNCT and t.text in ("(", "[", "{"):
            i = L.match_close(body, i) + 1
            stmt_start = (t.text == "{")
            continue
        stmt_start = (t.kind == L.PUNCT and t.text == ";")
        i += 1
    return body


def cands_impl(unit, spec):
    """the impl / trait items of the currently open //@impl (for rule R16: sibling methods are inlining candidates)"""
    try:
        rel, impls, want = unit.cur_impl
        return impls
    except Exception:
        return None


def self_fp_placeholder():
    return "\0"


class Unit:
    def __init__(self, template_path):
        self.path = template_path
        self.name = os.path.splitext(os.path.basename(template_path))[0]
        self.mode = "exact"
        self.out = []  # output lines
        self.linemap = []  # (gen_first, gen_last, label, repo_file, repo_first, repo_last)
        self.log = {"unit": self.name, "items": [], "fns": [], "rules": {}, "dropped_docs": 0, "dropped_attrs": 0,
                    "spliced_clauses": 0, "spliced_loop_clauses": 0, "prologues": 0}
        self.files = {}

    def load(self, rel):
        if rel not in self.files:
            mm = re.match(r"^(.*?)!(\w+)\((.*)\)$", rel)
            if mm:
                self.files[rel] = self.expand_macro(mm.group(1), mm.group(2), mm.group(3).strip())
                return self.files[rel]
            p = os.path.join(REPO, rel)
            src = open(p).read()
            toks = L.lex(src)
            self.files[rel] = (toks, L.parse_items(toks))
        return self.files[rel]

    def expand_macro(self, rel, name, arg):
        """M1: the items one invocation `name!(.. arg ..)` of a single-arm `macro_rules! name` generates, as a virtual source
        file `<file>!<name>(<arg>)`.  Supported arm shapes: `( $x:ty ) => { BODY }` and `( $( $x:ty ),+ ) => { $( BODY )* }`;
        the expansion is the body with every `$x` replaced by the argument's tokens (what rustc does for a `ty` fragment).
        The invocation with that argument must exist in the file."""
        toks, items = self.load(rel)
        mac = [it for it in items if it.kind == "macro_rules" and it.name == name]
        if len(mac) != 1:
            raise Unsupported("lost anchor: macro_rules! %s in %s" % (name, rel))
        it = mac[0]
        body = it.toks[it.body_open + 1:it.end - 1]
        ct = [t for t in body if not L.is_trivia(t)]
        txt = [t.text for t in ct]
        # matcher
        if txt[:7] == ["(", "$", "(", "$", txt[4], ":", "ty"] and txt[7:11] == [")", ",", "+", ")"]:
            var, rep, k = txt[4], True, 11
        elif txt[:5] == ["(", "$", txt[2], ":", "ty"] and txt[5] == ")":
            var, rep, k = txt[2], False, 6
        else:
            raise Unsupported("macro %s: matcher shape not supported" % name)
        if txt[k] != "=>" or txt[k + 1] != "{":
            raise Unsupported("macro %s: arm shape not supported" % name)
        # transcriber: token range of the arm's `{ ... }` in `body`
        idx = [i for i, t in enumerate(body) if not L.is_trivia(t)]
        o = idx[k + 1]
        c = L.match_close(body, o)
        rest = [t.text for t in body[c + 1:] if not L.is_trivia(t)]
        if rest not in ([], [";"]):
            raise Unsupported("macro %s has more than one arm" % name)
        tr = body[o + 1:c]
        if rep:
            tt = [t for t in tr if not L.is_trivia(t)]
            if not (tt[0].text == "$" and tt[1].text == "(" and tt[-1].text == "*"):
                raise Unsupported("macro %s: repetition shape not supported" % name)
            i0 = next(i for i, t in enumerate(tr) if t.text == "(" and not L.is_trivia(t))
            c0 = L.match_close(tr, i0)
            tr = tr[i0 + 1:c0]
        # the invocation must exist with that argument
        want_arg = L.norm(L.lex(arg))
        ok = False
        for call in items:
            if call.kind == "macro_call" and call.name == name:
                ctoks = call.toks[call.start:call.end]
                po = next(i for i, t in enumerate(ctoks) if t.text in ("(", "[", "{"))
                pc = L.match_close(ctoks, po)
                args = [L.norm(ctoks[a:b]) for a, b in _split_top(ctoks, po + 1, pc, ",")]
                if want_arg in args and (rep or len(args) == 1):
                    ok = True
        if not ok:
            raise Unsupported("lost anchor: no invocation %s!(%s) in %s" % (name, arg, rel))
        atoks = [t for t in L.lex(arg)]
        out = []
        i = 0
        while i < len(tr):
            t = tr[i]
            if t.kind == L.PUNCT and t.text == "$":
                j = L.skip_trivia(tr, i + 1, len(tr))
                if j < len(tr) and tr[j].text == var:
                    for a in atoks:
                        out.append(L.Tok(a.kind, a.text, t.line))
                    i = j + 1
                    continue
                raise Unsupported("macro %s: unknown metavariable at line %d" % (name, t.line))
            out.append(t)
            i += 1
        self.log.setdefault("macro_expansions", []).append({"file": rel, "macro": name, "arg": arg, "lines": [it.first_line, it.last_line]})
        self.log["rules"]["M1"] = self.log["rules"].get("M1", 0) + 1
        return (out, L.parse_items(out))

    def emit(self, text, label=None, repo=None):
        first = len(self.out) + 1
        lines = text.split("\n")
        self.out.extend(lines)
        if label:
            self.linemap.append(dict(first=first, last=len(self.out), label=label, repo=repo))

    def bump_rules(self, counts):
        for k, v in counts.items():
            self.log["rules"][k] = self.log["rules"].get(k, 0) + v

    # ---- directives
    def do_item(self, args):
        m = re.match(r"(\S+)\s+(\w+)\s+(\w+)(.*)$", args)
        if not m:
            raise Unsupported("bad //@item: " + args)
        rel, kind, name, rest = m.groups()
        derive = None
        md = re.search(r"(?<![A-Za-z_])derive=([\w,]*)", rest)
        if md:
            derive = [d for d in md.group(1).split(",") if d]
        toks, items = self.load(rel)
        cands = [it for it in items if it.kind == kind and it.name == name]
        if len(cands) != 1:
            raise Unsupported("lost anchor: %s %s in %s (%d matches)" % (kind, name, rel, len(cands)))
        it = cands[0]
        me = re.search(r"expect_derive=([\w,]*)", rest)
        if me:
            # the unit restates the output of these derives; they must still be what the repository asks the compiler to generate
            attrs_txt = text_of(it.toks[it.pre:it.start])
            derived = set()
            for dm in re.finditer(r"#\s*\[\s*derive\s*\(([^)]*)\)\s*\]", attrs_txt):
                derived |= {d.strip().split("::")[-1] for d in dm.group(1).split(",") if d.strip()}
            for want_d in [d for d in me.group(1).split(",") if d]:
                if want_d not in derived:
                    raise Unsupported("lost anchor: %s %s no longer derives %s (the unit restates that derive)" % (kind, name, want_d))
            self.log.setdefault("restated_derives", []).append({"item": "%s %s" % (kind, name), "derives": me.group(1).split(",")})
        body, dd, da = strip_docs_attrs(it.toks[it.start:it.end])
        self.log["dropped_docs"] += dd
        self.log["dropped_attrs"] += da + sum(1 for t in it.toks[it.pre:it.start] if t.text == "#")
        fp = None
        if self.mode == "ideal":
            body, fp = self.mono_header(body)
            rw = Rewriter(float_param=fp)
            body = rw.run(body)
            self.bump_rules(rw.counts)
        text = text_of(body)
        text = re.sub(r"\n\s*\n+", "\n", text)
        if derive:
            text = "#[derive(%s)]\n" % ", ".join(derive) + text
        self.emit(text, label="%s %s" % (kind, name), repo=(rel, it.first_line, it.last_line))
        self.log["items"].append({"item": "%s %s" % (kind, name), "file": rel, "lines": [it.first_line, it.last_line]})

    def mono_header(self, toks):
        """R1 on a header/item: remove `<X: Float>` binder (X alone) and return X."""
        n = len(toks)
        for i, t in enumerate(toks):
            if t.text == "<":
                a = L.skip_trivia(toks, i + 1, n)
                b = L.skip_trivia(toks, a + 1, n)
                if b < n and toks[b].text == ":" and toks[a].kind == L.IDENT:
                    c = L.skip_trivia(toks, b + 1, n)
                    # allow num_traits::Float
                    path = []
                    while c < n and (toks[c].kind == L.IDENT or toks[c].text == "::"):
                        path.append(toks[c].text)
                        c = L.skip_trivia(toks, c + 1, n)
                    if path and path[-1] == "Float" and toks[c].text == ">":
                        fp = toks[a].text
                        self.log["rules"]["R1"] = self.log["rules"].get("R1", 0) + 1
                        return toks[:i] + toks[c + 1:], fp
                return toks, None
            if t.text in ("{", "("):
                break
        return toks, None

    def open_impl(self, args):
        mono = None
        mm_ = re.search(r"\smono=(\w+)", args)
        if mm_:
            mono = mm_.group(1)
            args = args[:mm_.start()] + args[mm_.end():]
        m = re.match(r"(\S+)\s+(.*?)(?:\s*=>\s*(.*))?$", args)
        rel, header, emitted = m.group(1), m.group(2).strip(), m.group(3)
        toks, items = self.load(rel)
        want = L.norm(L.lex(header))
        cands = [it for it in items if it.kind in ("impl", "trait") and it.header_text == want]
        if not cands:
            raise Unsupported("lost anchor: `%s` in %s" % (want, rel))
        self.cur_impl = (rel, cands, want)
        self.cur_fp = None
        hdr_toks, _, _ = strip_docs_attrs(cands[0].toks[cands[0].start:cands[0].body_open])
        if self.mode == "ideal":
            hdr_toks, fp = self.mono_header(hdr_toks)
            self.cur_fp = fp
            if fp is None:
                # trait header `trait StatisticsOps<F: Float>: Default`
                mm = re.search(r"<\s*(\w+)\s*:\s*(?:num_traits::)?Float\s*>", want)
                if mm:
                    self.cur_fp = mm.group(1)
            if mono:
                # explicit monomorphisation of a type parameter that is not bounded by Float (R1), e.g. `impl<T: PartialOrd + Copy> Interval<T>`
                if not emitted:
                    raise Unsupported("mono= needs an emitted header")
                self.cur_fp = mono
                self.log.setdefault("monomorphised", []).append({"repo_header": want, "param": mono, "as": "R"})
            rw = Rewriter(float_param=self.cur_fp)
            hdr_toks = rw.run(hdr_toks)
            self.bump_rules(rw.counts)
        text = emitted if emitted else text_of(hdr_toks).strip()
        # self type of the emitted impl (for qualified obligation names)
        h = re.sub(r"^impl\s*(<[^{]*?>)?\s+(?=[A-Za-z(])", "impl ", re.sub(r"\s+", " ", text)) if not re.match(r"impl\s*<", text) else None
        if h is None:
            depth, i = 0, text.index("<")
            for j in range(i, len(text)):
                if text[j] == "<": depth += 1
                elif text[j] == ">" and text[j - 1] != "-":
                    depth -= 1
                    if depth == 0: break
            h = "impl " + text[j + 1:].strip()
        h = h.split(" where ")[0]
        st = h.split(" for ")[-1] if " for " in h else h[len("impl "):]
        self.cur_self = re.match(r"\s*\(?\s*([A-Za-z_]\w*)", st).group(1) if re.match(r"\s*\(?\s*([A-Za-z_]\w*)", st) else "?"
        if emitted:
            self.log.setdefault("rehomed", []).append({"repo_header": want, "emitted": emitted})
        self.emit(text + " {")
        # associated types of a trait impl come along
        for im in cands[:1]:
            for c in im.children():
                if c.kind == "type" and im.kind == "impl":
                    tt, _, _ = strip_docs_attrs(c.toks[c.start:c.end])
                    if self.mode == "ideal":
                        rw = Rewriter(float_param=self.cur_fp)
                        tt = rw.run(tt)
                        self.bump_rules(rw.counts)
                    self.emit("    " + text_of(tt).strip())

    def close_impl(self):
        self.emit("}")
        self.cur_impl = None

    def do_fn(self, spec, free=False):
        # spec: dict(name, ret, vis, clauses[], loops{n:[...]}, prologue[], file(for free))
        if free:
            toks, items = self.load(spec["file"])
            cands = [it for it in items if it.kind == "fn" and it.name == spec["name"]]
            rel = spec["file"]
            fp = None
        else:
            rel, impls, want = self.cur_impl
            cands = [c for im in impls for c in im.children() if c.kind == "fn" and c.name == spec["name"]]
            fp = self.cur_fp
        if len(cands) != 1:
            raise Unsupported("lost anchor: fn %s in %s (%d matches)" % (spec["name"], rel, len(cands)))
        it = cands[0]
        if not hasattr(self, "contracts_by_name"):
            self.contracts_by_name = {}
        self.contracts_by_name[(spec["name"] if free else "%s::%s" % (self.cur_self, spec.get("as") or spec["name"]))] = list(spec["clauses"])
        self.log["dropped_attrs"] += sum(1 for t in it.toks[it.pre:it.start] if t.text == "#")
        self.log["dropped_docs"] += sum(1 for t in it.toks[it.pre:it.start] if t.kind in (L.LCOMMENT, L.BCOMMENT))
        toks, dd, da = strip_docs_attrs(it.toks[it.start:it.end])
        if spec.get("as"):
            # the function is emitted under another name (a trait method re-homed next to the inherent method of the same name:
            # inside the trait impl `self.append(x)` resolves to the INHERENT append, and so it does after the renaming)
            fp_ = find_fn_parts(toks)
            toks = toks[:fp_["name"]] + [L.Tok(L.IDENT, spec["as"], toks[fp_["name"]].line)] + toks[fp_["name"] + 1:]
            self.log.setdefault("renamed", []).append({"fn": spec["name"], "as": spec["as"]})
        # comments inside bodies are dropped too (they may contain anything)
        self.log["dropped_docs"] += dd
        self.log["dropped_attrs"] += da
        iter_params = []
        # name resolution guard: the unit is one flat module, so a call `g(..)` in this body is bound to the free function `g` the
        # unit extracted from ANOTHER file; if this file now defines its own module-level `fn g` (shadowing the import), the
        # repository calls that one instead -> the unit would verify the wrong callee: stop (exit 2)
        _, file_items = self.load(rel.split("!")[0]) if "!" in rel else self.load(rel)
        local_fns = {x.name for x in file_items if x.kind == "fn"}
        body_idents = {t.text for t in toks if t.kind == L.IDENT}
        for g, origin in getattr(self, "freefn_origin", {}).items():
            if origin != rel and g in local_fns and g in body_idents:
                raise Unsupported("lost anchor: `%s` called in fn %s now resolves to a function defined in %s, the unit binds it to %s" % (g, spec["name"], rel, origin))
        self.r16_fp = fp
        if free:
            mfp = re.search(r"<\s*(\w+)\s*:\s*(?:num_traits::)?Float\s*>", text_of(toks[:find_fn_parts(toks)["params_open"]]))
            self.r16_fp = mfp.group(1) if mfp else None
        toks = self.r16_inline_helpers(toks, rel, it, None if free else cands_impl(self, spec), spec["name"])
        toks = self.r17_param_patterns(toks)
        toks = self.r6b_local_consts(toks, rel)
        if self.mode == "ideal":
            if free:
                toks, fp = self.mono_header(toks)
            toks, iter_params = self.drop_iter_generics(toks)
            toks = drop_mono_predicates(toks, fp)
            rw = Rewriter(float_param=fp, iter_params=iter_params, consts=getattr(self, "consts", ()))
            toks = rw.run(toks)
            self.bump_rules(rw.counts)
        toks = self.r10_for_ref_patterns(toks)
        toks = self.r11_lazy_static(toks)
        toks = self.r12_unshadow(toks)
        toks = self.r13_and_then(toks)
        toks = r15_ref_patterns(toks, self.log)
        toks = r14_or_guard(toks, self.log)
        toks = s5_closure_specs(toks, spec.get("closures", {}), spec["name"], self.log)
        for old, new in spec.get("subst", []):
            # S4: explicit, logged substitution of one expression (for constructs neither Verus nor the rules can express)
            otoks = [t.text for t in L.lex(old) if not L.is_trivia(t)]
            idxs = [i_ for i_, t in enumerate(toks) if not L.is_trivia(t)]
            hit = None
            for c0 in range(len(idxs) - len(otoks) + 1):
                if all(toks[idxs[c0 + d]].text == otoks[d] for d in range(len(otoks))):
                    hit = c0
                    break
            if hit is None:
                raise Unsupported("lost anchor: fn %s does not contain `%s`" % (spec["name"], old))
            a_, b_ = idxs[hit], idxs[hit + len(otoks) - 1]
            toks = toks[:a_] + [L.Tok(L.IDENT, new, toks[a_].line)] + toks[b_ + 1:]
            self.log.setdefault("substitutions", []).append({"fn": spec["name"], "old": old, "new": new})
        parts = find_fn_parts(toks)
        loops = find_loops(toks, parts["body_open"])
        # `$mutN` in loop specs / ghost blocks stands for the N-th `let mut` local of the function (in source order, as named
        # after the rewrites): invariants then survive a renaming of the function's temporaries
        ct_ = [t for t in toks[parts["body_open"]:] if not L.is_trivia(t)]
        mut_locals = [ct_[q + 2].text for q in range(len(ct_) - 2) if ct_[q].text == "let" and ct_[q + 1].text == "mut" and ct_[q + 2].kind == L.IDENT]
        # `$mut{INIT}`: the `let mut` local whose initialiser is INIT (e.g. `$mut{data_a.into_iter()}`, `$mut{0}`): a local is named
        # by the role its initialiser gives it, whatever it is called and whatever other locals the function has
        mut_inits = []
        for q in range(len(ct_) - 2):
            if ct_[q].text == "let" and ct_[q + 1].text == "mut" and ct_[q + 2].kind == L.IDENT:
                e_ = q + 3
                while e_ < len(ct_) and ct_[e_].text != "=" and ct_[e_].text != ";":
                    e_ += 1
                if e_ < len(ct_) and ct_[e_].text == "=":
                    f_ = e_ + 1
                    depth_ = 0
                    while f_ < len(ct_) and not (ct_[f_].text == ";" and depth_ == 0):
                        if ct_[f_].text in ("(", "[", "{"):
                            depth_ += 1
                        elif ct_[f_].text in (")", "]", "}"):
                            depth_ -= 1
                        f_ += 1
                    mut_inits.append((ct_[q + 2].text, L.norm(ct_[e_ + 1:f_])))
        def subst_mut(line):
            def rep(m):
                k = int(m.group(1))
                if k >= len(mut_locals):
                    raise Unsupported("lost anchor: fn %s has %d `let mut` locals, spec names $mut%d" % (spec["name"], len(mut_locals), k))
                return mut_locals[k]
            line = re.sub(r"\$mut(\d+)", rep, line)
            def rep2(m):
                want = L.norm(L.lex(m.group(1)))
                hits = [nm for nm, init in mut_inits if init == want]
                if len(hits) != 1:
                    raise Unsupported("lost anchor: fn %s has %d `let mut` locals initialised with `%s`" % (spec["name"], len(hits), m.group(1)))
                return hits[0]
            return re.sub(r"\$mut\{([^}]*)\}", rep2, line)
        spec = dict(spec, loops={k: [subst_mut(l) for l in v] for k, v in spec["loops"].items()},
                    at=[(a_, subst_mut(t_)) for a_, t_ in spec.get("at", [])])
        # assemble
        sig_end = parts["body_open"]
        pieces = []
        sig = toks[:sig_end]
        sig_text_a = text_of(toks[:parts["arrow"] + 1]) if parts["arrow"] is not None else None
        if spec.get("vis"):
            # override visibility (private fns called from a sibling module of the unit need `pub`)
            pass
        if parts["arrow"] is not None and spec.get("ret"):
            ret_text = text_of(toks[parts["ret_start"]:parts["ret_end"]]).strip()
            head = text_of(toks[:parts["arrow"] + 1]) + " (%s: %s)" % (spec["ret"], ret_text)
            tail = text_of(toks[parts["ret_end"]:sig_end])
            sig_text = head + (" " + tail.strip() if tail.strip() else "")
            self.log["spliced_clauses"] += 0
        else:
            if spec.get("ret") and parts["arrow"] is None:
                raise Unsupported("fn %s: ret name given but no return type" % spec["name"])
            sig_text = text_of(sig).rstrip()
        sig_text = sig_text.rstrip()
        clause_text = ""
        if spec["clauses"]:
            clause_text = "\n" + "\n".join("        " + c for c in spec["clauses"])
            self.log["spliced_clauses"] += len(spec["clauses"])
        # body with loop specs
        body = toks[parts["body_open"]:]
        off = parts["body_open"]
        inserts = {}  # index in toks -> text to insert before that token
        for n_, lines in spec["loops"].items():
            if n_ >= len(loops):
                raise Unsupported("lost anchor: fn %s has %d loops, spec names loop %d" % (spec["name"], len(loops), n_))
            kw, hdr_end = loops[n_]
            inserts[hdr_end] = "\n" + "\n".join("            " + l for l in lines) + "\n        "
            self.log["spliced_loop_clauses"] += len(lines)
            if toks[kw].text == "for":
                # for PAT in EXPR  ->  for PAT in it: EXPR
                k = kw + 1
                while k < hdr_end and not (toks[k].kind == L.IDENT and toks[k].text == "in"):
                    if toks[k].text in ("(", "["):
                        k = L.match_close(toks, k)
                    k += 1
                inserts[k + 1] = " it:"
        for anchor, text in spec.get("at", []):
            # ghost text spliced before the statement that starts with the anchor tokens (matched AFTER the rewrites)
            atoks = [t.text for t in L.lex(anchor) if not L.is_trivia(t)]
            ctoks = [(i_, t) for i_, t in enumerate(toks) if not L.is_trivia(t) and i_ > parts["body_open"]]
            hit = None
            for c0 in range(len(ctoks) - len(atoks) + 1):
                if all(ctoks[c0 + d][1].text == atoks[d] for d in range(len(atoks))):
                    hit = c0
                    break
            if hit is None:
                raise Unsupported("lost anchor: fn %s has no statement starting with `%s`" % (spec["name"], anchor))
            prev = ctoks[hit - 1][1].text if hit > 0 else "{"
            if prev not in (";", "{", "}"):
                raise Unsupported("anchor `%s` in fn %s is not at the start of a statement" % (anchor, spec["name"]))
            idx = ctoks[hit][0]
            inserts[idx] = inserts.get(idx, "") + text + "\n        "
            self.log["ghost_blocks"] = self.log.get("ghost_blocks", 0) + 1
        if spec["prologue"]:
            inserts[parts["body_open"] + 1] = "\n" + "\n".join("        " + l for l in spec["prologue"]) + "\n"
            self.log["prologues"] += 1
        btxt = []
        for idx in range(parts["body_open"], len(toks)):
            if idx in inserts:
                btxt.append(inserts[idx])
            btxt.append(toks[idx].text)
        body_text = "".join(btxt)
        if getattr(self, "vacuity", False) and spec["clauses"]:
            # reachability probe (vacuity guard): a ghost `assert(false)` at the normal exit of the body must FAIL; if it is
            # proved, the preconditions are contradictory (or an assumption made everything unreachable).  Callers do not see it.
            # ... and one more probe inside every `return EXPR` (a body that is one infinite `loop` with `return`s never reaches
            # its normal exit): `return { proof { assert(false); } EXPR }`.  A function is vacuous only if ALL its probes are proved.
            bt = L.lex(body_text)
            outb = []
            i_ = 0
            while i_ < len(bt):
                t_ = bt[i_]
                if t_.kind == L.IDENT and t_.text == "return":
                    k_ = i_ + 1
                    depth_ = 0
                    while k_ < len(bt):
                        x_ = bt[k_]
                        if x_.kind == L.PUNCT and x_.text in ("(", "[", "{"):
                            k_ = L.match_close(bt, k_)
                        elif x_.kind == L.PUNCT and x_.text in (",", ";", "}", ")"):
                            break
                        k_ += 1
                    expr = text_of(bt[i_ + 1:k_]).strip()
                    if expr:
                        outb.extend(L.lex("return { proof { assert(false); /*probe*/ } %s }" % expr))
                        i_ = k_
                        continue
                outb.append(t_)
                i_ += 1
            body_text = "{ let r__probe = " + text_of(outb) + "; proof { assert(false); /*probe*/ } r__probe }"
            self.log.setdefault("vacuity_probes", []).append((spec["name"] if free else "%s::%s" % (self.cur_self, spec.get("as") or spec["name"])))
        full = sig_text + clause_text + ("\n    " if clause_text else " ") + body_text
        if spec.get("vis") is not None:
            full = re.sub(r"^\s*(pub(\s*\([^)]*\))?\s+)?", "" if spec["vis"] == "none" else spec["vis"] + " ", full, count=1)
        full = re.sub(r"\n\s*\n+", "\n", full)
        label = ("%s::%s" % (want, spec["name"])) if not free else spec["name"]
        self.emit("    " + full.strip("\n"), label=label, repo=(rel, it.first_line, it.last_line))
        self.log["fns"].append({"fn": label, "qual": (spec["name"] if free else "%s::%s" % (self.cur_self, spec.get("as") or spec["name"])),
                                "contract": spec["clauses"], "file": rel, "lines": [it.first_line, it.last_line],
                                "clauses": len(spec["clauses"]), "loop_specs": sum(len(v) for v in spec["loops"].values()),
                                "body_tokens": len(code_toks(body))})

    def r16_inline_helpers(self, toks, rel, item, impl_items, fn_name, depth=0):
        """R16: a call `h(e1, .., en)`, `Self::h(..)` or `self.h(..)` to a PRIVATE function of the same source file (free function,
        or method / associated function of the same impl block) that the unit does not declare is replaced by the callee's body:
            { let p1__h = e1; ..; let pn__h = en; let p1: T1 = p1__h; ..; let pn: Tn = pn__h; BODY }
        (arguments evaluated once, in order, before any parameter name is bound).  Only for callees without generic parameters
        (a single `<X: Float>` is renamed to the caller's float parameter), without `return` / `?` / recursion, and -- for
        methods -- called on `self` itself.  A maintainer extracting a helper then changes nothing for the unit; anything else
        stops the tool with exit 2 as before."""
        if depth > 4:
            raise Unsupported("helper inlining depth")
        _, items = self.load(rel)
        helpers = {}
        for it_ in items:
            if it_.kind == "fn":
                helpers.setdefault(it_.name, []).append(("free", it_))
        for im in (impl_items or []):
            for c in im.children():
                if c.kind == "fn":
                    helpers.setdefault(c.name, []).append(("method", c))
        known = getattr(self, "known_fns", set())
        parts = find_fn_parts(toks)
        b0 = parts["body_open"]
        n = len(toks)
        i = b0 + 1
        while i < n:
            t = toks[i]
            if t.kind == L.IDENT and t.text in helpers and t.text not in known and t.text != fn_name:
                j = L.skip_trivia(toks, i + 1, n)
                if j < n and toks[j].text == "(":
                    # what precedes the name
                    p1 = i - 1
                    while p1 >= 0 and L.is_trivia(toks[p1]):
                        p1 -= 1
                    form, start = "free", i
                    if toks[p1].text == ".":
                        p2 = p1 - 1
                        while p2 >= 0 and L.is_trivia(toks[p2]):
                            p2 -= 1
                        p3 = p2 - 1
                        while p3 >= 0 and L.is_trivia(toks[p3]):
                            p3 -= 1
                        if toks[p2].text == "self" and toks[p3].text not in (".",):
                            form, start = "method", p2
                        elif toks[p2].kind == L.IDENT and toks[p3].text not in (".", "::") and re.fullmatch(r"[a-z_][a-z0-9_]*", toks[p2].text):
                            # a method of the same impl called on another variable of the same type: `other.h(..)`; the body is
                            # inlined with `self` standing for that variable
                            form, start = "method:" + toks[p2].text, p2
                        else:
                            i += 1
                            continue
                    elif toks[p1].text == "::":
                        p2 = p1 - 1
                        while p2 >= 0 and L.is_trivia(toks[p2]):
                            p2 -= 1
                        if toks[p2].text == "Self" or (toks[p2].kind == L.IDENT and toks[p2].text == getattr(self, "cur_self", None)):
                            form, start = "assoc", p2
                        else:
                            i += 1
                            continue
                    elif toks[p1].text == "fn":
                        i += 1
                        continue
                    cands = [h for k_, h in helpers[t.text] if (k_ == "free") == (form == "free")]
                    recv = None
                    if form.startswith("method:"):
                        form, recv = "method", form.split(":", 1)[1]
                    if len(cands) != 1:
                        i += 1
                        continue
                    h = cands[0]
                    pre_txt = text_of(h.toks[h.pre:h.start]) + text_of([x for x in h.toks[h.start:h.body_open] if not L.is_trivia(x)][:1])
                    if re.search(r"\bpub\b", text_of(h.toks[h.start:h.body_open]).split("fn")[0]):
                        i += 1
                        continue            # only private helpers: a pub function is part of the API and needs its own contract
                    close = L.match_close(toks, j)
                    new = self._inline_call(h, toks, j, close, form, t.text, recv)
                    toks = toks[:start] + new + toks[close + 1:]
                    n = len(toks)
                    self.log["rules"]["R16"] = self.log["rules"].get("R16", 0) + 1
                    self.log.setdefault("inlined_helpers", []).append({"into": fn_name, "helper": t.text, "file": rel, "lines": [h.first_line, h.last_line]})
                    # re-scan from the start of the replacement (nested helpers)
                    return self.r16_inline_helpers(toks, rel, item, impl_items, fn_name, depth + 1)
            i += 1
        return toks

    def _inline_call(self, h, toks, o, c, form, name, recv=None):
        ht, _, _ = strip_docs_attrs(h.toks[h.start:h.end])
        if recv is not None:
            ht = [L.Tok(x.kind, recv if (x.kind == L.IDENT and x.text == "self") else x.text, x.line) for x in ht]
        hp = find_fn_parts(ht)
        if hp["where"] is not None:
            raise Unsupported("helper %s has a where clause (not inlined)" % name)
        body = ht[hp["body_open"] + 1:len(ht) - 1]
        if hp["gen_open"] is not None:
            g = [x.text for x in ht[hp["gen_open"] + 1:hp["gen_close"]] if not L.is_trivia(x)]
            fp_caller = getattr(self, "r16_fp", None)
            if len(g) >= 3 and g[1] == ":" and g[-1] == "Float" and "," not in g and fp_caller:
                # the helper's only generic parameter is a float type: at this call site it is the caller's float parameter
                gname = g[0]
                ht = [L.Tok(x.kind, fp_caller if (x.kind == L.IDENT and x.text == gname) else x.text, x.line) for x in ht]
                body = ht[hp["body_open"] + 1:len(ht) - 1]
            else:
                raise Unsupported("helper %s has generic parameters (not inlined)" % name)
        body = _guards_to_else(body)
        for x in body:
            if x.kind == L.IDENT and x.text in ("return", name) or (x.kind == L.PUNCT and x.text == "?"):
                raise Unsupported("helper %s uses `%s` (not inlined)" % (name, x.text))
        # parameters
        params = []
        has_self = False
        for a, b in _split_top(ht, hp["params_open"] + 1, hp["params_close"], ","):
            ptxt = text_of(ht[a:b]).strip()
            if not ptxt:
                continue
            if re.fullmatch(r"&?\s*(mut\s+)?self", ptxt) or (recv is not None and re.fullmatch(r"&?\s*(mut\s+)?%s" % re.escape(recv), ptxt)):
                has_self = True
                if "mut" in ptxt:
                    # `&mut self`: the body, with `self` standing for the receiver, acts on the receiver's fields through
                    # auto-deref exactly as the call does -- unless it mentions the receiver as a whole (`*self = ..`, `self`
                    # passed on), which a by-value receiver variable would not support
                    rname = recv or "self"
                    bt = [x for x in body if not L.is_trivia(x)]
                    for q, x in enumerate(bt):
                        if x.kind == L.IDENT and x.text == rname and not (q + 1 < len(bt) and bt[q + 1].text == "."):
                            raise Unsupported("helper %s takes &mut self and uses the receiver as a whole (not inlined)" % name)
                    self.log["rules"]["R16mut"] = self.log["rules"].get("R16mut", 0) + 1
                continue
            m_ = re.match(r"(mut\s+)?(\w+)\s*:\s*(.*)$", ptxt, re.S)
            if not m_:
                raise Unsupported("helper %s: parameter shape `%s`" % (name, ptxt))
            params.append((m_.group(2), m_.group(3).strip(), bool(m_.group(1))))
        if has_self != (form == "method"):
            raise Unsupported("helper %s: receiver form mismatch" % name)
        args = [text_of(toks[a:b]).strip() for a, b in _split_top(toks, o + 1, c, ",") if text_of(toks[a:b]).strip()]
        if len(args) != len(params):
            raise Unsupported("helper %s: %d arguments for %d parameters" % (name, len(args), len(params)))
        pre = "".join("let %s__%s = %s; " % (pn, name, a) for (pn, _, _), a in zip(params, args))
        pre += "".join("let %s%s: %s = %s__%s; " % ("mut " if mu else "", pn, ty, pn, name) for pn, ty, mu in params)
        # parenthesised: a block in statement position followed by an operator would otherwise end the statement
        out = L.lex("({ " + pre) + list(body) + L.lex(" })")
        return out

    def r17_param_patterns(self, toks):
        """R17: a parameter written as a tuple pattern, `fn f((a, b): (T, U))`, becomes a plainly named parameter destructured by
        the first statement of the body, `fn f(p__arg0: (T, U)) { let (a, b) = p__arg0; ..` (what Rust defines it as; Verus wants
        plain identifiers in parameter position)"""
        parts = find_fn_parts(toks)
        po, pc = parts["params_open"], parts["params_close"]
        pre = []
        edits = []
        for k, (a, b) in enumerate(_split_top(toks, po + 1, pc, ",")):
            i = L.skip_trivia(toks, a, b)
            if i >= b or not (toks[i].kind == L.PUNCT and toks[i].text == "("):
                continue
            close = L.match_close(toks, i)
            j = L.skip_trivia(toks, close + 1, b)
            if j >= b or toks[j].text != ":":
                continue
            name = "p__arg%d" % k
            edits.append((i, close, name))
            pre.append("let %s = %s;" % (text_of(toks[i:close + 1]), name))
        if not edits:
            return toks
        out = list(toks)
        bo = parts["body_open"]
        ins = [t for t in L.lex(" " + " ".join(pre) + " ")]
        out = out[:bo + 1] + ins + out[bo + 1:]
        for i, close, name in sorted(edits, reverse=True):
            out = out[:i] + [L.Tok(L.IDENT, name, toks[i].line)] + out[close + 1:]
        self.log["rules"]["R17"] = self.log["rules"].get("R17", 0) + len(edits)
        return out

    def r6b_local_consts(self, toks, rel):
        """R6b: a module-level `const NAME: <numeric type> = <literal>;` of the same file that the function mentions but the unit
        does not declare is bound as a local at the start of the body: `let NAME: T = <literal>;` (same value, same name)."""
        known = set(getattr(self, "consts", ()))
        _, items = self.load(rel)
        consts = {}
        for it in items:
            if it.kind == "const" and it.name not in known:
                ct = code_toks(it.toks[it.start:it.end])
                try:
                    eq = next(i for i, t in enumerate(ct) if t.text == "=")
                except StopIteration:
                    continue
                val = ct[eq + 1:-1]
                colon = next((i for i, t in enumerate(ct) if t.text == ":"), None)
                ty = text_of(ct[colon + 1:eq]).strip() if colon is not None else ""
                # a single numeric literal (optionally negated) of a primitive numeric type
                lit = [t for t in val if not (t.kind == L.PUNCT and t.text == "-")]
                if len(lit) == 1 and lit[0].kind == L.NUM and len(val) <= 2 and re.fullmatch(r"f64|f32|[iu](8|16|32|64|128|size)", ty):
                    consts[it.name] = (ty, text_of(val).strip())
        if not consts:
            return toks
        parts = find_fn_parts(toks)
        used = []
        for t in toks[parts["body_open"]:]:
            if t.kind == L.IDENT and t.text in consts and t.text not in used:
                used.append(t.text)
        if not used:
            return toks
        ins = []
        for nm in used:
            ins += L.lex("\n        let %s: %s = %s;" % (nm, consts[nm][0], consts[nm][1]))
            self.log["rules"]["R6b"] = self.log["rules"].get("R6b", 0) + 1
        b = parts["body_open"]
        return toks[:b + 1] + ins + toks[b + 1:]

    def r13_and_then(self, toks):
        """R13: `RECV.and_then(|v| BODY)` with a closure literal -> `match RECV { Ok(v) => BODY, Err(e__) => Err(e__) }`
        (the definition of Result::and_then; Verus cannot pass closures to std combinators)."""
        out = list(toks)
        n = len(out)
        i = 0
        while i < n:
            if out[i].kind == L.IDENT and out[i].text == "and_then":
                d = i - 1
                while d >= 0 and L.is_trivia(out[d]):
                    d -= 1
                o = L.skip_trivia(out, i + 1, n)
                if out[d].text == "." and out[o].text == "(":
                    c = L.match_close(out, o)
                    inner = L.skip_trivia(out, o + 1, c)
                    if out[inner].text != "|":
                        raise Unsupported("and_then with a non-closure argument")
                    v = L.skip_trivia(out, inner + 1, c)
                    bar = L.skip_trivia(out, v + 1, c)
                    if out[v].kind != L.IDENT or out[bar].text != "|":
                        raise Unsupported("and_then closure parameter shape")
                    body = out[bar + 1:c]
                    # receiver: back to the start of the expression statement
                    r0 = d - 1
                    depth = 0
                    while r0 >= 0:
                        t = out[r0]
                        if t.kind == L.PUNCT and t.text in (")", "]", "}"):
                            depth += 1
                        elif t.kind == L.PUNCT and t.text in ("(", "[", "{"):
                            if depth == 0:
                                break
                            depth -= 1
                        elif depth == 0 and t.kind == L.PUNCT and t.text in (";", "="):
                            break
                        elif depth == 0 and t.kind == L.IDENT and t.text == "return":
                            break
                        r0 -= 1
                    recv = out[r0 + 1:d]
                    new = ([L.Tok(L.IDENT, " match ", out[i].line)] + recv + [L.Tok(L.PUNCT, " { Ok(%s) => " % out[v].text, out[i].line)] + body
                           + [L.Tok(L.PUNCT, ", Err(e__) => Err(e__) }", out[i].line)])
                    out = out[:r0 + 1] + new + out[c + 1:]
                    n = len(out)
                    self.log["rules"]["R13"] = self.log["rules"].get("R13", 0) + 1
                    i = r0 + 1 + len(new)
                    continue
            i += 1
        return out

    def r12_unshadow(self, toks):
        """R12: `let [mut] X = X.into_iter();` (a local shadowing the parameter it iterates) -> the local and all its later uses
        are renamed X__it (alpha-conversion), so that contracts and invariants can still name the parameter."""
        out = list(toks)
        code = [i for i, t in enumerate(out) if not L.is_trivia(t)]
        k = 0
        while k + 8 < len(code):
            ts = [out[code[k + d]].text for d in range(9)]
            # let mut X = X . into_iter ( ) ;
            if ts[0] == "let" and ts[1] == "mut" and ts[3] == "=" and ts[2] == ts[4] and ts[5] == "." and ts[6] == "into_iter" and ts[7] == "(" and ts[8] == ")":
                name = ts[2]
                new = name + "__it"
                out[code[k + 2]] = L.Tok(L.IDENT, new, out[code[k + 2]].line)
                for j in code[k + 10:]:
                    if out[j].kind == L.IDENT and out[j].text == name:
                        # not a field access `.name`
                        pj = j - 1
                        while pj >= 0 and L.is_trivia(out[pj]):
                            pj -= 1
                        if out[pj].text != ".":
                            out[j] = L.Tok(L.IDENT, new, out[j].line)
                self.log["rules"]["R12"] = self.log["rules"].get("R12", 0) + 1
            k += 1
        return out

    def r11_lazy_static(self, toks):
        """R11: `lazy_static! { static ref NAME: TYPE = EXPR; }` inside a body -> `let NAME: TYPE = EXPR;`
        (a lazily initialised immutable static and a local binding of the same expression denote the same value)."""
        out = list(toks)
        i = 0
        while i < len(out):
            if out[i].kind == L.IDENT and out[i].text == "lazy_static":
                j = L.skip_trivia(out, i + 1, len(out))
                if out[j].text == "!":
                    b = L.skip_trivia(out, j + 1, len(out))
                    if out[b].text != "{":
                        raise Unsupported("lazy_static shape")
                    e = L.match_close(out, b)
                    inner = [t for t in out[b + 1:e] if not L.is_trivia(t)]
                    if len(inner) < 6 or inner[0].text != "static" or inner[1].text != "ref" or inner[-1].text != ";":
                        raise Unsupported("lazy_static block is not a single `static ref`")
                    body = out[b + 1:e]
                    # drop `static ref`, keep the rest verbatim
                    k = 0
                    dropped = 0
                    new = []
                    for t in body:
                        if dropped < 2 and not L.is_trivia(t) and t.text in ("static", "ref"):
                            dropped += 1
                            continue
                        new.append(t)
                    out = out[:i] + [L.Tok(L.IDENT, "let", out[i].line)] + new + out[e + 1:]
                    self.log["rules"]["R11"] = self.log["rules"].get("R11", 0) + 1
            i += 1
        return out

    def r10_for_ref_patterns(self, toks):
        """R10: `for &PAT in E { BODY }` -> `for PAT__r in E { let PAT = *PAT__r; BODY }` (Verus has no ref patterns;
        for Copy items the two forms are the same program).  PAT is an identifier or a tuple of identifiers."""
        out = list(toks)
        i = 0
        k = 0
        while i < len(out):
            t = out[i]
            if t.kind == L.IDENT and t.text == "for":
                j = L.skip_trivia(out, i + 1, len(out))
                if j < len(out) and out[j].text == "&":
                    p0 = L.skip_trivia(out, j + 1, len(out))
                    if out[p0].text == "(":
                        p1 = L.match_close(out, p0)
                    elif out[p0].kind == L.IDENT:
                        p1 = p0
                    else:
                        raise Unsupported("for-loop ref pattern shape at line %d" % t.line)
                    pat = text_of(out[p0:p1 + 1])
                    nxt = L.skip_trivia(out, p1 + 1, len(out))
                    if out[nxt].text != "in":
                        raise Unsupported("for-loop ref pattern shape at line %d" % t.line)
                    # body open brace
                    b = nxt + 1
                    while out[b].text != "{":
                        if out[b].text in ("(", "["):
                            b = L.match_close(out, b)
                        b += 1
                    tmp = "item__r%d" % k
                    k += 1
                    out = (out[:j] + [L.Tok(L.IDENT, tmp, t.line)] + out[p1 + 1:b + 1]
                           + [L.Tok(L.WS, "\n                ", t.line), L.Tok(L.IDENT, "let %s = *%s;" % (pat, tmp), t.line)] + out[b + 1:])
                    self.log["rules"]["R10"] = self.log["rules"].get("R10", 0) + 1
            i += 1
        return out

    def drop_iter_generics(self, toks):
        """R4: `fn f<I, ..>(.. data: &I ..) where for<'a> &'a I: IntoIterator<Item = &'a X>, ..` -> data: &Vec<X>
        (and `iter: I where I: IntoIterator<Item = X>` -> iter: Vec<X>).
        Removes the iterable parameters from the generic list and their predicates from the where clause;
        other generic parameters / predicates are kept verbatim."""
        parts = find_fn_parts(toks)
        if parts["where"] is None:
            return toks, {}
        w = parts["where"]
        b = parts["body_open"]
        wtxt = text_of(toks[w:b])
        pred = r"for\s*<\s*'\w+\s*>\s*&\s*'\w+\s+(\w+)\s*:\s*IntoIterator\s*<\s*Item\s*=\s*&\s*'\w+\s+(\w+|\([^)]*\))\s*>\s*,?"
        params = re.findall(pred, wtxt)
        # by-value iterable `I: IntoIterator<Item = X>` (consumed by a `for` loop) -> Vec<X> as well
        pred2 = r"\b(\w+)\s*:\s*IntoIterator\s*<\s*Item\s*=\s*(\w+)\s*>\s*,?"
        wtxt_wo = re.sub(pred, "", wtxt)
        params2 = re.findall(pred2, wtxt_wo)
        if not params and not params2:
            return toks, {}
        params = list(params) + list(params2)
        rest = re.sub(pred2, "", re.sub(pred, "", wtxt))
        rest_body = rest.replace("where", "", 1).strip()
        names = [p_[0] for p_ in params]
        if parts["gen_open"] is None:
            raise Unsupported("iterable bound without generic list")
        gtxt = text_of(toks[parts["gen_open"] + 1:parts["gen_close"]])
        gnames = [g.strip() for g in gtxt.split(",") if g.strip()]
        for nm in names:
            if nm not in gnames:
                raise Unsupported("iterable %s is not a plain generic parameter" % nm)
        keep = [g for g in gnames if g not in names]
        new_gen = L.lex("<" + ", ".join(keep) + ">") if keep else []
        new_where = L.lex("\n    where " + rest_body + "\n    ") if rest_body else [L.Tok(L.WS, " ", toks[w].line)]
        new = toks[:parts["gen_open"]] + new_gen + toks[parts["gen_close"] + 1:w] + new_where + toks[b:]
        self.log["rules"]["R4"] = self.log["rules"].get("R4", 0) + 1
        return new, {p_[0]: (p_[1] if (p_[1].startswith("(") or p_[1] not in (self_fp_placeholder(),)) else None) for p_ in params}

    def do_const(self, args):
        """R6: `const NAME: f64 = <lit>;` -> `pub fn NAME() -> (r: R) ensures <given> { <lit as R::lit> }`"""
        m = re.match(r"(\S+)\s+(\w+)\s*\|\s*(.*)$", args)
        rel, name, ens = m.groups()
        toks, items = self.load(rel)
        cands = [it for it in items if it.kind == "const" and it.name == name]
        if len(cands) != 1:
            raise Unsupported("lost anchor: const %s" % name)
        it = cands[0]
        ct = code_toks(it.toks[it.start:it.end])
        # const NAME : f64 = LIT ;
        eq = next(i for i, t in enumerate(ct) if t.text == "=")
        val = ct[eq + 1:-1]
        if len(val) != 1 or not is_float_literal(val[0]):
            raise Unsupported("const %s is not a single float literal" % name)
        self.emit("    #[allow(non_snake_case)]\n    pub fn %s() -> (r: R)\n        %s\n    { %s }" % (name, ens, float_literal_to_rlit(val[0].text)),
                  label="const " + name, repo=(rel, it.first_line, it.last_line))
        self.log["rules"]["R6"] = self.log["rules"].get("R6", 0) + 1
        self.log["rules"]["R2"] = self.log["rules"].get("R2", 0) + 1
        self.consts = set(getattr(self, "consts", set())) | {name}
        self.log["items"].append({"item": "const " + name, "file": rel, "lines": [it.first_line, it.last_line]})

    # ---- driver
    def read_template(self, path, depth=0):
        """template lines with `//@include <file>` expanded (relative to verus/)"""
        out = []
        for ln in open(path).read().split("\n"):
            m = re.match(r"\s*//@include\s+(\S+)", ln)
            if m:
                if depth > 4:
                    raise Unsupported("include depth")
                inc = os.path.join(os.path.dirname(os.path.dirname(os.path.abspath(self.path))), m.group(1))
                out.extend(self.read_template(inc, depth + 1))
            else:
                out.append(ln)
        return out

    def build(self):
        lines = self.read_template(self.path)
        self.cur_impl = None
        # names the unit itself provides (directives and template text): a call to anything else that is a PRIVATE function of
        # the same source file is inlined (rule R16)
        self.known_fns = set()
        self.freefn_origin = {}
        for ln in lines:
            m_ = re.match(r"\s*//@(?:fn|freefn\s+\S+)\s+(\w+)", ln)
            if m_:
                self.known_fns.add(m_.group(1))
                mf = re.match(r"\s*//@freefn\s+(\S+)\s+(\w+)", ln)
                if mf:
                    self.freefn_origin[mf.group(2)] = mf.group(1)
            elif not ln.strip().startswith("//"):
                self.known_fns.update(re.findall(r"\bfn\s+(\w+)", ln))
        i = 0
        n = len(lines)
        while i < n:
            ln = lines[i]
            s = ln.strip()
            if not s.startswith("//@"):
                self.emit(ln)
                i += 1
                continue
            d = s[3:]
            if d.startswith("mode "):
                self.mode = d.split()[1]
            elif d.startswith("item "):
                self.do_item(d[5:].strip())
            elif d.startswith("impl "):
                self.open_impl(d[5:].strip())
            elif d.startswith("endimpl"):
                self.close_impl()
            elif d.startswith("const "):
                self.do_const(d[6:].strip())
            elif d.startswith("fn ") or d.startswith("freefn "):
                free = d.startswith("freefn ")
                parts = d.split()
                spec = {"clauses": [], "loops": {}, "prologue": [], "ret": None, "vis": None}
                k = 1
                if free:
                    spec["file"] = parts[k]
                    k += 1
                spec["name"] = parts[k]
                k += 1
                while k < len(parts):
                    if parts[k] == "ret":
                        spec["ret"] = parts[k + 1]
                        k += 2
                    elif parts[k] == "vis":
                        spec["vis"] = parts[k + 1]
                        k += 2
                    elif parts[k] == "as":
                        spec["as"] = parts[k + 1]
                        k += 2
                    else:
                        raise Unsupported("bad fn directive: " + d)
                # gather clause lines
                while i + 1 < n:
                    nx = lines[i + 1].strip()
                    if nx.startswith("//@|"):
                        spec["clauses"].append(nx[4:].rstrip())
                    elif nx.startswith("//@prologue|"):
                        spec["prologue"].append(nx[len("//@prologue|"):].rstrip())
                    elif nx.startswith("//@subst "):
                        ms = re.match(r'//@subst\s+"(.*?)"\s*=>\s*"(.*?)"\s*$', nx)
                        if not ms:
                            raise Unsupported("bad //@subst directive: " + nx)
                        spec.setdefault("subst", []).append((ms.group(1), ms.group(2)))
                    elif nx.startswith("//@contract_of "):
                        # reuse, verbatim, the contract clauses given earlier in this unit to another function (Type::name)
                        key = nx[len("//@contract_of "):].strip()
                        store = getattr(self, "contracts_by_name", {})
                        if key not in store:
                            raise Unsupported("//@contract_of %s: no such function specified earlier in the unit" % key)
                        spec["clauses"].extend(store[key])
                    elif nx.startswith("//@closure "):
                        mc = re.match(r"//@closure\s+(\d+)\|\s*\((.*?)\)\s*->\s*([^|]*?)\s*(?:\|\s*ensures\s+(.*))?$", nx)
                        if not mc:
                            raise Unsupported("bad //@closure directive: " + nx)
                        spec.setdefault("closures", {})[int(mc.group(1))] = (mc.group(2).strip(), mc.group(3).strip(), (mc.group(4) or "").strip() or None)
                    elif nx.startswith("//@at "):
                        ma = re.match(r'//@at\s+"(.*?)"\s*\|(.*)$', nx)
                        if not ma:
                            raise Unsupported("bad //@at directive: " + nx)
                        spec.setdefault("at", []).append((ma.group(1), ma.group(2).rstrip()))
                    else:
                        ml = re.match(r"//@loop\s+(\d+)\|(.*)$", nx)
                        if ml:
                            spec["loops"].setdefault(int(ml.group(1)), []).append(ml.group(2).rstrip())
                        else:
                            break
                    i += 1
                self.do_fn(spec, free=free)
            elif d.startswith("#") or d.strip() == "":
                pass
            else:
                raise Unsupported("unknown directive: " + ln)
            i += 1
        return "\n".join(self.out) + "\n"


ITEM_START = {"pub", "proof", "spec", "fn", "impl", "broadcast", "open", "closed", "uninterp", "axiom", "use", "struct", "enum",
              "trait", "type", "const", "mod", "#", "}", "exec", "static", "unsafe", "extern", "macro_rules"}


def probe_lemmas(text, log):
    """vacuity probes for lemmas (`proof fn` with a body): `assert(false);` as the FIRST statement of the body is provable only
    if the lemma's `requires` are contradictory (or the axioms in scope are).  The body is the first depth-0 brace group after
    the parameter list that is followed by the start of another item (clauses may contain `match x { .. }` groups)."""
    toks = L.lex(text)
    n = len(toks)
    inserts = []
    i = 0
    while i < n:
        t = toks[i]
        if t.kind == L.IDENT and t.text == "proof":
            j = L.skip_trivia(toks, i + 1, n)
            if j < n and toks[j].text == "fn":
                k = j + 1
                while k < n and toks[k].text != "(":
                    k += 1
                k = L.match_close(toks, k) + 1
                body = None
                while k < n:
                    x = toks[k]
                    if x.kind == L.PUNCT and x.text in ("(", "["):
                        k = L.match_close(toks, k) + 1
                        continue
                    if x.kind == L.PUNCT and x.text == ";":
                        break           # declaration without body
                    if x.kind == L.PUNCT and x.text == "{":
                        c = L.match_close(toks, k)
                        nx = L.skip_trivia(toks, c + 1, n)
                        nxt = toks[nx].text if nx < n else "}"
                        if nx < n and toks[nx].kind in (L.LCOMMENT, L.BCOMMENT):
                            nxt = "}"
                        if nxt in ITEM_START:
                            body = k
                            break
                        k = c + 1
                        continue
                    k += 1
                if body is not None:
                    inserts.append(body)
                    i = body + 1
                    continue
        i += 1
    if not inserts:
        return text
    out = []
    ins = set(inserts)
    for idx, t in enumerate(toks):
        out.append(t.text)
        if idx in ins:
            out.append(" assert(false); /*probe*/ ")
    log["lemma_probes"] = len(inserts)
    return "".join(out)


def main():
    import argparse
    ap = argparse.ArgumentParser()
    ap.add_argument("template")
    ap.add_argument("-o", "--out", required=True)
    ap.add_argument("--log")
    ap.add_argument("--vacuity", action="store_true", help="reachability probe: every spliced contract gets the extra postcondition `false`; each such function must then FAIL")
    a = ap.parse_args()
    u = Unit(a.template)
    u.vacuity = a.vacuity
    try:
        text = u.build()
    except (Unsupported, L.LexError) as e:
        sys.stderr.write("extract: UNDECIDED unit=%s: %s\n" % (u.name, e))
        sys.exit(2)
    if a.vacuity:
        text = probe_lemmas(text, u.log)
    open(a.out, "w").write(text)
    log = dict(u.log)
    log["linemap"] = u.linemap
    if a.log:
        json.dump(log, open(a.log, "w"), indent=1)


if __name__ == "__main__":
    main()
