"""Minimal Rust lexer + item slicer used by extract.py.

It does not parse expressions.  It tokenises (strings, chars vs lifetimes,
nested block comments, numbers incl. float forms like `2.` and `100_000.`) and
finds *items* (fn / impl / struct / enum / type / const / trait / mod / use /
macro invocation) by bracket matching, which is all the extractor needs in
order to slice functions out of /repo/src/*.rs verbatim.
"""
import re

WS, LCOMMENT, BCOMMENT, STR, CHAR, LIFETIME, NUM, IDENT, PUNCT = (
    "ws", "lcomment", "bcomment", "str", "char", "lifetime", "num", "ident", "punct")


class Tok:
    __slots__ = ("kind", "text", "line")

    def __init__(self, kind, text, line):
        self.kind, self.text, self.line = kind, text, line

    def __repr__(self):
        return "Tok(%s,%r,%d)" % (self.kind, self.text, self.line)


_ident_re = re.compile(r"[A-Za-z_][A-Za-z0-9_]*")
_num_re = re.compile(
    r"(0x[0-9a-fA-F_]+|0b[01_]+|0o[0-7_]+|[0-9][0-9_]*(\.[0-9][0-9_]*)?([eE][+-]?[0-9_]+)?)([A-Za-z_][A-Za-z0-9_]*)?")
PUNCT3 = ("..=", "...", "<<=", ">>=")
PUNCT2 = ("::", "->", "=>", "..", "==", "!=", "<=", ">=", "&&", "||", "+=", "-=", "*=", "/=", "%=", "^=", "&=", "|=")


class LexError(Exception):
    pass


def lex(src):
    toks = []
    i, n, line = 0, len(src), 1
    while i < n:
        c = src[i]
        start = i
        if c in " \t\r\n":
            while i < n and src[i] in " \t\r\n":
                i += 1
            kind = WS
        elif src.startswith("//", i):
            j = src.find("\n", i)
            i = n if j < 0 else j
            kind = LCOMMENT
        elif src.startswith("/*", i):
            depth, i = 1, i + 2
            while i < n and depth:
                if src.startswith("/*", i):
                    depth += 1
                    i += 2
                elif src.startswith("*/", i):
                    depth -= 1
                    i += 2
                else:
                    i += 1
            if depth:
                raise LexError("unterminated block comment at line %d" % line)
            kind = BCOMMENT
        elif c == '"' or (c in "br" and re.match(r'(br|b|r)#*"', src[i:i + 8])):
            m = re.match(r'(br|b|r)?(#*)"', src[i:])
            prefix, hashes = m.group(1) or "", m.group(2)
            i += m.end()
            if "r" in prefix:
                end = src.find('"' + hashes, i)
                if end < 0:
                    raise LexError("unterminated raw string at line %d" % line)
                i = end + 1 + len(hashes)
            else:
                while i < n and src[i] != '"':
                    i += 2 if src[i] == "\\" else 1
                i += 1
            kind = STR
        elif c == "'" or (c == "b" and src.startswith("b'", i)):
            j = i + (2 if c == "b" else 1)
            # char literal: 'x' or '\..'; lifetime: 'ident not followed by '
            if j < n and src[j] == "\\":
                k = src.find("'", j + 2)
                i = k + 1
                kind = CHAR
            elif j + 1 < n and src[j + 1] == "'":
                i = j + 2
                kind = CHAR
            else:
                m = _ident_re.match(src, j)
                if not m:
                    raise LexError("bad quote at line %d" % line)
                i = m.end()
                kind = LIFETIME
        elif c.isdigit():
            prevtok = next((t for t in reversed(toks) if t.kind not in (WS, LCOMMENT, BCOMMENT)), None)
            if prevtok is not None and prevtok.kind == PUNCT and prevtok.text == ".":
                m = re.compile(r"([0-9]+)()()()").match(src, i)  # tuple index
            else:
                m = _num_re.match(src, i)
            i = m.end()
            # `2.` float form: a dot not followed by another dot, ident start or digit
            if (i < n and src[i] == "." and m.group(2) is None and m.group(3) is None and m.group(4) is None
                    and not src.startswith("..", i)
                    and not (i + 1 < n and (src[i + 1].isalpha() or src[i + 1] == "_"))):
                # but not a tuple index such as `value.0.foo` / `x.0`: previous token is `.`
                prev = next((t for t in reversed(toks) if t.kind not in (WS, LCOMMENT, BCOMMENT)), None)
                if not (prev is not None and prev.kind == PUNCT and prev.text == "."):
                    i += 1
            kind = NUM
        elif c.isalpha() or c == "_":
            m = _ident_re.match(src, i)
            i = m.end()
            kind = IDENT
        else:
            if src[i:i + 3] in PUNCT3:
                i += 3
            elif src[i:i + 2] in PUNCT2:
                i += 2
            else:
                i += 1
            kind = PUNCT
        text = src[start:i]
        toks.append(Tok(kind, text, line))
        line += text.count("\n")
    return toks


def is_trivia(t):
    return t.kind in (WS, LCOMMENT, BCOMMENT)


OPEN = {"(": ")", "[": "]", "{": "}"}
CLOSE = {")", "]", "}"}


def match_close(toks, i):
    """toks[i] is an opening bracket; return index of its matching close."""
    stack = []
    n = len(toks)
    j = i
    while j < n:
        t = toks[j]
        if t.kind == PUNCT:
            if t.text in OPEN:
                stack.append(OPEN[t.text])
            elif t.text in CLOSE:
                if not stack or stack[-1] != t.text:
                    raise LexError("unbalanced %r at line %d" % (t.text, t.line))
                stack.pop()
                if not stack:
                    return j
        j += 1
    raise LexError("no match for %r at line %d" % (toks[i].text, toks[i].line))


def skip_trivia(toks, i, end):
    while i < end and is_trivia(toks[i]):
        i += 1
    return i


def norm(toks):
    """whitespace-normalised text of a token run (trivia removed, canonical spacing)."""
    out = []
    prev = None
    for t in toks:
        if is_trivia(t):
            continue
        tx = t.text
        if prev is None:
            out.append(tx)
        elif tx in ("::", "<", ">", ",", ":", ")", "(", ";", "]", "[", "?", ".") or prev in ("::", "<", "(", "&", "[", ".", "!") or (prev == "'" ):
            if tx == "(" and prev in ("for", "in", "=", "+", "->", ","):
                out.append(" " + tx)
            else:
                out.append(tx)
        else:
            out.append(" " + tx)
        if tx in (",", ":"):
            out.append(" ")
        prev = tx
    s = "".join(out)
    s = re.sub(r"\s+", " ", s)
    s = re.sub(r" ,", ",", s)
    s = re.sub(r">(\w)", r"> \1", s)
    return s.strip()


class Item:
    """One item: toks[pre:end] (pre = first attr/doc comment), header toks[start:body_open],
    body toks[body_open:end] where toks[end-1] is '}' or ';'."""

    def __init__(self, toks, pre, start, body_open, end):
        self.toks, self.pre, self.start, self.body_open, self.end = toks, pre, start, body_open, end
        self.kind, self.name = self._classify()

    def _sig(self):
        return [t for t in self.toks[self.start:self.body_open if self.body_open else self.end] if not is_trivia(t)]

    def _classify(self):
        sig = self._sig()
        k = 0
        # visibility / qualifiers
        while k < len(sig):
            tx = sig[k].text
            if tx == "pub":
                k += 1
                if k < len(sig) and sig[k].text == "(":
                    while sig[k].text != ")":
                        k += 1
                    k += 1
            elif tx in ("const", "unsafe", "async", "extern", "default") and k + 1 < len(sig) and sig[k + 1].text in (
                    "fn", "unsafe", "async", "extern", "impl", "trait") or (tx == "extern" and sig[k + 1].kind == STR):
                k += 1
            elif sig[k].kind == STR:
                k += 1
            else:
                break
        if k >= len(sig):
            return ("unknown", "")
        kw = sig[k].text
        if kw in ("fn", "struct", "enum", "type", "trait", "mod", "union", "static", "const"):
            name = sig[k + 1].text if k + 1 < len(sig) else ""
            return (kw, name)
        if kw == "impl":
            return ("impl", norm(self.toks[self.start:self.body_open]))
        if kw == "use":
            return ("use", "")
        if kw == "macro_rules":
            return ("macro_rules", sig[k + 2].text if k + 2 < len(sig) else "")
        if k + 1 < len(sig) and sig[k + 1].text == "!":
            return ("macro_call", kw)
        return ("unknown", kw)

    @property
    def header_text(self):
        return norm(self.toks[self.start:self.body_open])

    @property
    def first_line(self):
        return self.toks[self.start].line

    @property
    def last_line(self):
        return self.toks[self.end - 1].line

    def text(self, a=None, b=None):
        return "".join(t.text for t in self.toks[(self.start if a is None else a):(self.end if b is None else b)])

    def children(self):
        if self.kind not in ("impl", "trait", "mod") or not self.body_open:
            return []
        return parse_items(self.toks, self.body_open + 1, self.end - 1)


def parse_items(toks, lo=0, hi=None):
    """Items found in toks[lo:hi] at nesting level 0 of that range."""
    if hi is None:
        hi = len(toks)
    items = []
    i = lo
    while True:
        i = skip_trivia_keep_docs(toks, i, hi)
        if i >= hi:
            break
        pre = i
        # attributes and doc comments
        while i < hi:
            t = toks[i]
            if t.kind in (WS,):
                i += 1
            elif t.kind in (LCOMMENT, BCOMMENT):
                i += 1
            elif t.kind == PUNCT and t.text == "#":
                j = skip_trivia(toks, i + 1, hi)
                if toks[j].text == "!":
                    j = skip_trivia(toks, j + 1, hi)
                if toks[j].text != "[":
                    raise LexError("bad attribute at line %d" % t.line)
                i = match_close(toks, j) + 1
            else:
                break
        if i >= hi:
            break
        start = i
        # header: to first `{` or `;` at bracket depth 0 (parens/brackets tracked)
        first = toks[start].text
        j = start
        body_open = None
        is_use_like = None
        # determine leading keyword (skip pub etc.) to special-case use/const/static/type
        k = start
        lead = []
        while k < hi and len(lead) < 4:
            if not is_trivia(toks[k]):
                lead.append(toks[k].text)
            k += 1
        lead_kw = [w for w in lead if w not in ("pub", "(", ")", "crate", "super", "in")]
        kw = lead_kw[0] if lead_kw else first
        semi_terminated = kw in ("use", "static", "type") or (kw == "const" and (len(lead_kw) < 2 or lead_kw[1] not in ("fn", "unsafe", "async", "extern")))
        while j < hi:
            t = toks[j]
            if t.kind == PUNCT:
                if t.text in ("(", "["):
                    j = match_close(toks, j)
                elif t.text == "{":
                    if semi_terminated:
                        j = match_close(toks, j)
                    else:
                        body_open = j
                        break
                elif t.text == ";":
                    break
            j += 1
        if j >= hi:
            raise LexError("item starting at line %d has no end" % toks[start].line)
        if body_open is not None:
            end = match_close(toks, body_open) + 1
            # macro invocation with braces may be followed by nothing; struct-like need no `;`
        else:
            end = j + 1
        items.append(Item(toks, pre, start, body_open, end))
        i = end
    return items


def skip_trivia_keep_docs(toks, i, hi):
    # plain whitespace only; comments are kept as the `pre` part of the next item
    while i < hi and toks[i].kind == WS:
        i += 1
    return i
