#!/usr/bin/env python3
"""seed_readme.py -- regenerate seeded/README.md from seeded/*/meta.json"""
import json, os, glob
VERIF = os.path.dirname(os.path.dirname(os.path.abspath(__file__)))
rows = []
for mp in sorted(glob.glob(os.path.join(VERIF, "seeded", "*", "meta.json"))):
    m = json.load(open(mp))
    name = m["name"]
    notes = ""
    np_ = os.path.join(os.path.dirname(mp), "agent_notes.md")
    what = ""
    if os.path.exists(os.path.join(os.path.dirname(mp), "summary.txt")):
        what = open(os.path.join(os.path.dirname(mp), "summary.txt")).read().strip()
    for c, r in m.get("checks", {}).items():
        rows.append((name, m["property"], "yes" if m.get("confirmed") else "NO", c, "caught" if r["caught"] else ("undecided" if r["undecided"] else "missed"),
                     ", ".join(r["failed_obligations"][:3]), what))
    if not m.get("checks"):
        rows.append((name, m["property"], "yes" if m.get("confirmed") else "NO", "-", "-", "", what))
out = ["# Seeded property-breaking changes", "",
       "Each directory holds a change to xdefago/stats-ci written by an independent sub-agent that saw only the property text",
       "(`patch.diff`, `demo.rs`: an integration test that fails with the change and passes without, `agent_notes.md`), and",
       "`meta.json`: what was run to confirm it (scratch worktree: applies, existing suite green, demo red/green) and what",
       "`./check <property>` said with the change applied.  None of these changes is ever committed to /repo.", "",
       "| seed | property | confirmed | check | verdict | failing obligations | what the change is |", "|---|---|---|---|---|---|---|"]
for r in rows:
    out.append("| " + " | ".join(r) + " |")
open(os.path.join(VERIF, "seeded", "README.md"), "w").write("\n".join(out) + "\n")
print("\n".join(out[-len(rows):]))
