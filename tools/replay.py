"""replay.py -- turn a failed obligation into a replay file, and re-run one.

Kani obligations: the harness is re-run with concrete playback; the printed unit
test (byte vectors for every kani::any()) is appended to the harness module in
the scratch copy and executed NATIVELY with `cargo kani playback`, i.e. against
the real code compiled by rustc.  Harnesses assert their postconditions with
plain assert!, so the native run fails exactly where the verifier said.

Verus obligations have no counterexample.  If the plan pairs the function with a
Kani harness, that harness is run and replayed; otherwise (or if the paired
harness passes: the failure exists only in the ideal-real model, e.g. a changed
formula) the replay file names the obligation, carries the verifier output and
the extracted function text, and the caller prints `no-failing-input-found`.
"""
import json
import os
import re
import sys
import time

HERE = os.path.dirname(os.path.abspath(__file__))
VERIF = os.path.dirname(HERE)


def _extract_playback_tests(out):
    """all printed playback tests, failing-check tests first (Kani also prints one per satisfied cover)"""
    tests = []
    for m in re.finditer(r"```\s*\n((?:\s*///[^\n]*\n)*\s*#\[test\].*?)```", out, re.S):
        test = m.group(1)
        nm = re.search(r"fn\s+(kani_concrete_playback_\w+)", test)
        is_cover = bool(re.search(r"Check for `cover`", test))
        if nm:
            tests.append((is_cover, test, nm.group(1)))
    tests.sort(key=lambda t: t[0])
    return [(t, n) for c, t, n in tests if not c]


def _native_playback(ks, module, test_src, test_name, timeout=900):
    import run as R
    path = os.path.join(ks.crate, "src", "verif_kani_%s.rs" % module)
    if ("fn %s(" % test_name) not in open(path).read():
        with open(path, "a") as f:
            f.write("\n" + test_src + "\n")
    env = dict(os.environ, CARGO_NET_OFFLINE="true")
    rc, out, err, dt = R.sh(["cargo", "kani", "playback", "-Z", "concrete-playback", "--lib", "--", test_name], cwd=ks.crate,
                            timeout=timeout, env=env)
    txt = out + "\n" + err
    failed = bool(re.search(r"test result: FAILED|panicked at", txt))
    passed = bool(re.search(r"test result: ok\. 1 passed", txt))
    panic = re.findall(r"panicked at [^\n]*\n[^\n]*", txt)
    return {"reproduced": failed and not passed, "ran": failed or passed, "panic": panic[:3], "tail": txt[-2500:]}


def make(pid, ob, ks, obligations, spec):
    import run as R
    safe = re.sub(r"[^A-Za-z0-9_.-]", "_", ob["id"])
    path = os.path.join(os.environ.get("VERIF_REPLAY_DIR", os.path.join(VERIF, "replay")), "%s-%s.json" % (pid, safe))
    rec = {"property": pid, "obligation": ob["id"], "engine": ob["engine"], "kind": ob["kind"], "verifier_detail": ob.get("detail", []),
           "created": time.strftime("%Y-%m-%dT%H:%M:%SZ", time.gmtime()), "reproduced": False}
    harness = None
    if ob["id"].startswith("kani:"):
        harness = ob["id"][5:]
    else:
        fn = ob["id"].split(":", 2)[-1]
        harness = (spec.get("pairs") or {}).get(fn)
        rec["paired_kani_harness"] = harness
        rec["verus_output"] = ob.get("detail", [])
        # where the function under contract lives in the repository, and the contract it failed
        if ob.get("repo"):
            rec["repo_location"] = ob["repo"]
        if ob.get("contract"):
            rec["contract"] = ob["contract"]
    try:
        if harness:
            if ks is None:
                ks = R.KaniSession()
                own = True
            else:
                own = False
            try:
                if not ks.prepared:
                    ks.prepare()
                hs = R.list_harnesses([harness])
                module = hs.get(harness, {}).get("module")
                rc, out, err, dt = ks.run_single_regular(harness, playback=True)
                rec["kani_failed_checks"] = re.findall(r"Failed Checks: [^\n]*\n[^\n]*", out)[:10]
                tests = _extract_playback_tests(out)
                if "VERIFICATION:- FAILED" in out and tests and module:
                    rec["harness"] = harness
                    rec["harness_module"] = module
                    for test, name in tests[:4]:
                        nat = _native_playback(ks, module, test, name)
                        rec["playback_test"] = test
                        rec["playback_test_name"] = name
                        rec["native"] = nat
                        rec["reproduced"] = nat["reproduced"]
                        rec["concrete_values"] = re.findall(r"//\s*(.*)\n\s*vec!\[[^\]]*\]", test)[:40]
                        if nat["reproduced"]:
                            break
                elif "VERIFICATION:- FAILED" in out:
                    rec["note"] = "verifier fails but produced no concrete playback test (e.g. a reachable cover, or a should_panic harness that returns)"
                    rec["verifier_tail"] = out[-3000:]
                else:
                    rec["note"] = "paired Kani harness passes on this tree: the failure exists only at the level of the Verus contract (ideal-real model or generic statement)"
            finally:
                if own:
                    ks.cleanup()
    except Exception as e:  # replay must never turn a verdict into a crash
        rec["replay_error"] = repr(e)
    json.dump(rec, open(path, "w"), indent=1)
    return {"path": path, "reproduced": rec["reproduced"]}


def rerun(path):
    import run as R
    rec = json.load(open(path))
    if not rec.get("playback_test"):
        print("replay file has no native test (obligation %s; no-failing-input-found); verifier said:" % rec["obligation"])
        for d in rec.get("verifier_detail", []):
            print("   ", d)
        return 0
    ks = R.KaniSession()
    try:
        ks.prepare()
        nat = _native_playback(ks, rec["harness_module"], rec["playback_test"], rec["playback_test_name"])
        print(nat["tail"][-1500:])
        if nat["reproduced"]:
            print("VIOLATION property=%s replay=%s" % (rec["property"], path))
            return 1
        print("replay: the stored input no longer fails on the current tree")
        return 0
    finally:
        ks.cleanup()
