#!/bin/sh
# run every registered quick check on /repo as it is, print one summary line per check (evidence/ is rewritten)
cd "$(dirname "$0")/.."
tier=${1:-quick}
for p in $(python3 -c "import sys; sys.path.insert(0,'tools'); import plan; print(' '.join(sorted(plan.PLAN)))"); do
  t0=$(date +%s)
  ./check $p --tier $tier > /tmp/run_all_$p.log 2>&1
  rc=$?
  echo "$p rc=$rc $(( $(date +%s) - t0 ))s $(tail -1 /tmp/run_all_$p.log)"
done
