#!/usr/bin/env python3
"""harmless_eval.py <src_dir> <name> --checks C01,C09

False-alarm test: a BEHAVIOUR-PRESERVING refactoring (patch.diff written by an independent sub-agent) is applied to a copy of
/repo; the existing suite must stay green; then the listed checks are run on the copy.  Expected: exit 0 (or exit 2 = UNDECIDED
when the machinery cannot read the new shape), never a VIOLATION.  Filed under /verif/harmless/<name>/."""
import json, os, re, shutil, subprocess, sys, time
VERIF = os.path.dirname(os.path.dirname(os.path.abspath(__file__)))


def sh(cmd, cwd=None, timeout=7200):
    p = subprocess.run(cmd, cwd=cwd, shell=True, stdout=subprocess.PIPE, stderr=subprocess.STDOUT, text=True, timeout=timeout)
    return p.returncode, p.stdout


def main():
    src, name = sys.argv[1], sys.argv[2]
    checks = sys.argv[sys.argv.index("--checks") + 1].split(",")
    out = os.path.join(VERIF, "harmless", name)
    os.makedirs(out, exist_ok=True)
    patch = os.path.join(src, "patch.diff")
    copy = "/tmp/harmlessrepo-%s" % name
    sh("rm -rf %s; rsync -a --exclude target /repo/ %s/" % (copy, copy))
    meta = {"name": name, "checks": {}}
    try:
        rc, o = sh("git apply %s" % patch, cwd=copy)
        meta["applies"] = rc == 0
        rc2, o2 = sh("cargo test --offline --no-fail-fast 2>&1 | grep -E '^test result|^error' | head -20", cwd=copy)
        res = re.findall(r"test result: (\w+)\.", o2)
        meta["suite_green"] = len(res) >= 5 and all(r == "ok" for r in res) and not re.search(r"^error", o2, re.M)
        sh("rm -rf %s/target" % copy)
        if meta["applies"] and meta["suite_green"]:
            for c in checks:
                t0 = time.time()
                rcc, oc = sh("VERIF_REPO=%s VERIF_REPLAY_DIR=%s VERIF_EVIDENCE_DIR=/tmp/harmlessevidence ./check %s --tier quick 2>&1 | grep -vE '^    '" % (copy, os.path.join(out, "replay"), c), cwd=VERIF)
                viol = re.findall(r"^VIOLATION.*$", oc, re.M)
                failed = re.findall(r"^obligation failed: (.*)$", oc, re.M)
                und = [u[:300] for u in re.findall(r"^UNDECIDED.*$", oc, re.M)]
                last = oc.strip().split("\n")[-1] if oc.strip() else ""
                meta["checks"][c] = {"verdict": "FALSE ALARM" if viol else ("undecided" if und else "pass"), "failed_obligations": failed, "undecided": und[:4], "summary": last, "wall_s": round(time.time() - t0)}
                print(name, c, meta["checks"][c]["verdict"], failed[:3], last)
        else:
            print(name, "NOT USABLE", meta)
    finally:
        sh("rm -rf %s" % copy)
    shutil.copy(patch, os.path.join(out, "patch.diff"))
    if os.path.exists(os.path.join(src, "notes.md")):
        shutil.copy(os.path.join(src, "notes.md"), os.path.join(out, "agent_notes.md"))
    json.dump(meta, open(os.path.join(out, "meta.json"), "w"), indent=1)


if __name__ == "__main__":
    main()
