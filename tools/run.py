#!/usr/bin/env python3
"""run.py -- the single entry point behind ./check.

  ./check <Cxx> [--tier quick|thorough] [--keep] [--replay <file>]

For the property it (1) regenerates the Verus units from /repo's working tree and
runs verus on them, (2) builds a scratch copy of /repo with the Kani harness
modules mounted and runs the property's harnesses, (3) classifies every
obligation, (4) writes evidence/<id>.json, (5) prints VIOLATION / KNOWN-FINDING /
UNDECIDED lines and exits 0 / 1 / 2.
"""
import argparse
import json
import os
import re
import shutil
import subprocess
import sys
import tempfile
import time

HERE = os.path.dirname(os.path.abspath(__file__))
VERIF = os.path.dirname(HERE)
sys.path.insert(0, HERE)
import plan as PLAN  # noqa: E402

REPO = os.environ.get("VERIF_REPO", "/repo")
SCRATCH_ROOT = os.environ.get("VERIF_SCRATCH", "/var/tmp")

IGNORED_KANI_CLASSES = [
    re.compile(r"^NaN on "),
    re.compile(r"^arithmetic overflow on floating-point"),
    # CBMC's C-library models of exp/log/pow set errno; under a frame contract that shows up as a write to
    # *__errno_location().  The C errno is not part of Rust's semantics (std never reads it after these calls).
    re.compile(r"__errno_location"),
]


def sh(cmd, cwd=None, timeout=None, env=None):
    """run a command in its own process group; on timeout kill the whole group (verus->z3, cargo->kani->cbmc)"""
    import signal
    t0 = time.time()
    p = subprocess.Popen(cmd, cwd=cwd, shell=isinstance(cmd, str), stdout=subprocess.PIPE, stderr=subprocess.PIPE, env=env,
                         text=True, errors="replace", start_new_session=True)
    try:
        out, err = p.communicate(timeout=timeout)
        return p.returncode, out, err, time.time() - t0
    except subprocess.TimeoutExpired:
        try:
            os.killpg(p.pid, signal.SIGKILL)
        except ProcessLookupError:
            pass
        try:
            out, err = p.communicate(timeout=20)
        except Exception:
            out, err = "", ""
        return -9, out or "", err or "", time.time() - t0


class Undecided(Exception):
    pass


# ----------------------------------------------------------------------------
# Verus engine


def run_verus_unit(unit, workdir, tier, seed):
    """returns dict(unit, functions: {name: {success, ms, errors:[...]}}, log, wall_s, cmd)"""
    tpl = os.path.join(VERIF, "verus", "units", unit + ".rs")
    gen = os.path.join(workdir, unit + ".rs")
    logp = os.path.join(workdir, unit + ".extract.json")
    rc, out, err, dt = sh([sys.executable, os.path.join(HERE, "extract.py"), tpl, "-o", gen, "--log", logp])
    if rc != 0:
        raise Undecided("extract %s: %s" % (unit, err.strip()))
    log = json.load(open(logp))
    tmo = 180 if tier == "quick" else 600
    cmd = ["verus", gen, "--output-json", "--time", "--multiple-errors", "50"]
    if tier == "thorough" and seed:
        cmd += ["--smt-option", "smt.random_seed=%d" % (seed % 1000)]
    rc, out, err, dt = sh(cmd, cwd=workdir, timeout=tmo)
    if rc == -9:
        # Z3 occasionally wanders off on a nonlinear query; one retry with another random seed before giving up (exit 2)
        cmd2 = [c for c in cmd if not c.startswith("smt.random_seed")]
        cmd2 = [c for i_, c in enumerate(cmd2) if not (c == "--smt-option" and i_ + 1 >= len(cmd2))] 
        cmd2 = [c for c in cmd2 if c != "--smt-option"] + ["--smt-option", "smt.random_seed=%d" % (7 + seed % 1000)]
        rc, out, err, dt2 = sh(cmd2, cwd=workdir, timeout=tmo)
        dt += dt2
        cmd = cmd2
        if rc == -9:
            raise Undecided("verus %s: timeout after %ds (twice, two solver seeds)" % (unit, tmo))
    try:
        j = json.loads(out)
    except Exception:
        raise Undecided("verus %s: no JSON output (rc=%s): %s" % (unit, rc, err[-2000:]))
    vr = j.get("verification-results", {})
    if vr.get("encountered-vir-error") or (not vr.get("success") and not vr.get("errors")):
        raise Undecided("verus %s: front-end error (unsupported construct or type error):\n%s" % (unit, err[-3000:]))
    funcs = {}
    for mod in j.get("times-ms", {}).get("smt", {}).get("smt-run-module-times", []):
        for fb in mod.get("function-breakdown", []):
            name = fb["function"]
            name = re.sub(r"^[^:]+::", "", name)  # drop crate name
            name = re.sub(r"^(code|spec)::", "", name)
            if fb.get("mode:") == "spec":
                continue
            k, n_ = name, 1
            while k in funcs:
                n_ += 1
                k = "%s#%d" % (name, n_)
            funcs[k] = {"success": bool(fb.get("success")), "us": fb.get("time-micros", 0), "mode": fb.get("mode:", ""),
                        "errors": []}
    # diagnostics -> function by generated line
    gen_lines = open(gen).read().split("\n")
    diags, foreign = split_foreign(parse_verus_diags(err), gen)
    for d in diags:
        fn = enclosing_fn(gen_lines, d["line"])
        d["function"] = fn
        # match to a breakdown entry by suffix
        key = next((k for k in funcs if re.sub(r"#\d+$", "", k).split("::")[-1] == fn and not funcs[k]["success"] and not funcs[k]["errors"]), None)
        if key is None:
            key = next((k for k in funcs if re.sub(r"#\d+$", "", k).split("::")[-1] == fn and not funcs[k]["success"]), None)
        if key is None:
            key = next((k for k in funcs if re.sub(r"#\d+$", "", k).split("::")[-1] == fn), None)
        if key is not None:
            funcs[key]["errors"].append(d)
            funcs[key]["success"] = False
        else:
            funcs.setdefault("?" + str(fn), {"success": False, "us": 0, "mode": "", "errors": []})["errors"].append(d)
    # diagnostics located in vstd (e.g. an operator-trait postcondition): attach to failed functions that have none
    for k, f in funcs.items():
        if not f["success"] and not f["errors"] and foreign:
            f["errors"] = foreign[:3]
    # rlimit / timeouts inside verus are reported as errors with specific text
    for k, f in funcs.items():
        for d in f["errors"]:
            if re.search(r"rlimit|resource limit|timed out|timeout", d["msg"], re.I):
                f["undecided"] = True
    return {"unit": unit, "functions": funcs, "log": log, "wall_s": dt, "cmd": " ".join(cmd),
            "verified": vr.get("verified"), "errors": vr.get("errors"), "gen": gen, "stderr": err}


def run_vacuity_probe(unit, workdir, tier):
    """vacuity guard per function: the unit is extracted a second time with a ghost `assert(false)` at the normal exit of every
    function under contract; Verus must report each of them as failing.  Returns the functions whose probe was PROVED
    (contradictory preconditions / unreachable exit), or raises Undecided when the probe run itself gives no answer."""
    tpl = os.path.join(VERIF, "verus", "units", unit + ".rs")
    gen = os.path.join(workdir, unit + "_vacuity.rs")
    logp = os.path.join(workdir, unit + ".vacuity.extract.json")
    rc, out, err, dt = sh([sys.executable, os.path.join(HERE, "extract.py"), tpl, "-o", gen, "--log", logp, "--vacuity"])
    if rc != 0:
        raise Undecided("vacuity probe: extract %s: %s" % (unit, err.strip()))
    tmo = 180 if tier == "quick" else 600
    cmd = ["verus", gen, "--output-json", "--time", "--multiple-errors", "1000"]
    rc, out, err, dt = sh(cmd, cwd=workdir, timeout=tmo)
    if rc == -9:
        raise Undecided("vacuity probe: verus %s: timeout after %ds" % (unit, tmo))
    try:
        j = json.loads(out)
    except Exception:
        raise Undecided("vacuity probe: verus %s: no JSON output" % unit)
    vr_ = j.get("verification-results", {})
    if vr_.get("encountered-vir-error") or "verified" not in vr_ or (vr_.get("verified", 0) + vr_.get("errors", 0)) == 0:
        raise Undecided("vacuity probe: verus %s: front-end error:\n%s" % (unit, err[-1500:]))
    gen_lines = open(gen).read().split("\n")
    probe_lines = [i + 1 for i, l in enumerate(gen_lines) if "assert(false); /*probe*/" in l]
    failed = set(int(m.group(1)) for m in re.finditer(r"assertion failed\n\s*--> [^\n]*?:(\d+):", err))
    # probes are grouped by the function they sit in (start line of the enclosing `fn`); a function is vacuous if NONE of its
    # probes (normal exit, every `return`) is reported as failing
    by_fn = {}
    for l in probe_lines:
        start = next((i for i in range(min(l, len(gen_lines)) - 1, -1, -1) if re.search(r"\bfn\s+\w+", gen_lines[i]) and not gen_lines[i].lstrip().startswith("//")), 0)
        by_fn.setdefault(start, []).append(l)
    proved = [re.search(r"\bfn\s+(\w+)", gen_lines[st]).group(1) for st, ls in sorted(by_fn.items()) if not any(l in failed for l in ls)]
    return {"probes": len(probe_lines), "functions": len(by_fn), "proved": proved, "wall_s": dt, "cmd": " ".join(cmd)}


def parse_verus_diags(err):
    diags = []
    cur = None
    for ln in err.split("\n"):
        m = re.match(r"^(error|warning)(\[\w+\])?: (.*)$", ln)
        if m:
            cur = {"level": m.group(1), "msg": m.group(3), "line": None, "text": [ln]}
            if m.group(1) == "error" and not m.group(3).startswith("aborting due to"):
                diags.append(cur)
            continue
        if cur is not None:
            cur["text"].append(ln)
            m = re.match(r"^\s*--> (.*?):(\d+):(\d+)", ln)
            if m and cur["line"] is None:
                cur["line"] = int(m.group(2))
                cur["file"] = m.group(1)
    for d in diags:
        d["text"] = "\n".join(d["text"][:14])
    return [d for d in diags if d["line"] is not None]


def split_foreign(diags, gen):
    base = os.path.basename(gen)
    own = [d for d in diags if os.path.basename(d.get("file", "")) == base]
    foreign = [d for d in diags if os.path.basename(d.get("file", "")) != base]
    return own, foreign


def enclosing_fn(lines, line):
    for i in range(min(line, len(lines)) - 1, -1, -1):
        m = re.search(r"\bfn\s+(\w+)", lines[i])
        if m and not lines[i].lstrip().startswith("//"):
            return m.group(1)
    return None


# ----------------------------------------------------------------------------
# Kani engine


class KaniSession:
    def __init__(self, keep=False):
        self.dir = tempfile.mkdtemp(prefix="verif-kani-", dir=SCRATCH_ROOT)
        self.crate = os.path.join(self.dir, "crate")
        self.keep = keep
        self.prepared = False
        self.harness_timeout = 600

    def cleanup(self):
        if not self.keep:
            shutil.rmtree(self.dir, ignore_errors=True)

    def prepare(self):
        rc, out, err, dt = sh(["rsync", "-a", "--exclude", "target", "--exclude", ".git", REPO + "/", self.crate + "/"])
        if rc != 0:
            raise Undecided("rsync failed: " + err)
        os.makedirs(os.path.join(self.crate, ".cargo"), exist_ok=True)
        with open(os.path.join(self.crate, ".cargo", "config.toml"), "a") as f:
            f.write("\n[net]\noffline = true\n")
        hdir = os.path.join(VERIF, "kani", "harness")
        self.mounted = []
        for fn in sorted(os.listdir(hdir)):
            if not fn.endswith(".rs"):
                continue
            mod = fn[:-3]
            src = os.path.join(self.crate, "src", mod + ".rs")
            if not os.path.exists(src):
                raise Undecided("lost anchor: harness module %s has no src/%s.rs" % (fn, mod))
            dst = os.path.join(self.crate, "src", "verif_kani_" + fn)
            shutil.copy(os.path.join(hdir, fn), dst)
            with open(src, "a") as f:
                f.write('\n#[cfg(kani)]\n#[path = "verif_kani_%s"]\npub(crate) mod verif_kani;\n' % fn)
            self.mounted.append(mod)
        self.contracts_on = False
        self.pristine = {}
        self.prepared = True

    def set_contracts(self, on):
        """contract attributes (kani/contracts.json) are spliced onto the real functions only for the proof_for_contract
        harnesses: a function that carries a contract cannot also be replaced by a stub in the same build (Kani: "Failed to
        find contract closure"), and several regular harnesses stub ci_wilson."""
        if not self.prepared:
            self.prepare()
        if on == self.contracts_on:
            return
        cpath = os.path.join(VERIF, "kani", "contracts.json")
        cdir = os.path.join(VERIF, "kani", "harness_contracts")
        if on:
            cs = json.load(open(cpath)) if os.path.exists(cpath) else []
            mods = sorted(f[:-3] for f in os.listdir(cdir) if f.endswith(".rs")) if os.path.isdir(cdir) else []
            for rel in sorted(set(c["file"] for c in cs) | set("src/%s.rs" % m for m in mods)):
                self.pristine[rel] = open(os.path.join(self.crate, rel)).read()
            self.splice_contracts(cs)
            # the proof_for_contract harnesses live in their own child module, mounted only now (they do not compile
            # against functions without a contract)
            for m in mods:
                shutil.copy(os.path.join(cdir, m + ".rs"), os.path.join(self.crate, "src", "verif_kani_contracts_%s.rs" % m))
                with open(os.path.join(self.crate, "src", m + ".rs"), "a") as f:
                    f.write('\n#[cfg(kani)]\n#[path = "verif_kani_contracts_%s.rs"]\npub(crate) mod verif_kani_contracts;\n' % m)
        else:
            for rel, txt in self.pristine.items():
                open(os.path.join(self.crate, rel), "w").write(txt)
        self.contracts_on = on

    def splice_contracts(self, contracts):
        by_file = {}
        for c in contracts:
            by_file.setdefault(c["file"], []).append(c)
        for rel, cs in by_file.items():
            p = os.path.join(self.crate, rel)
            lines = open(p).read().split("\n")
            for c in cs:
                # anchor: the first line matching `fn <name>` after a line containing the impl header (if any)
                start = 0
                if c.get("impl"):
                    hits = [i for i, l in enumerate(lines) if c["impl"] in l]
                    if not hits:
                        raise Undecided("lost anchor: impl `%s` in %s" % (c["impl"], rel))
                    start = hits[0]
                pat = re.compile(r"^\s*(pub(\([^)]*\))?\s+)?(const\s+)?fn\s+%s\b" % re.escape(c["fn"]))
                hit = next((i for i in range(start, len(lines)) if pat.match(lines[i])), None)
                if hit is None:
                    raise Undecided("lost anchor: fn %s in %s" % (c["fn"], rel))
                indent = re.match(r"^\s*", lines[hit]).group(0)
                # the attributes go on the SAME line as the `fn` keyword: no line of the original moves
                lines[hit] = indent + " ".join("#[cfg_attr(kani, %s)]" % a for a in c["attrs"]) + " " + lines[hit].lstrip()
            open(p, "w").write("\n".join(lines))

    def run(self, harnesses, jobs=8, timeout=1800, extra=(), contracts=False):
        """run the named harnesses (exact names) in parallel; returns {harness: result}"""
        if not self.prepared:
            self.prepare()
        self.set_contracts(contracts)
        cmd = ["cargo", "kani", "-Z", "function-contracts", "-Z", "stubbing", "-Z", "unstable-options",
               "--harness-timeout", "%ds" % self.harness_timeout, "-j", str(jobs), "--output-format", "terse"]
        cmd += list(extra)
        for h in harnesses:
            cmd += ["--exact", "--harness", h] if False else ["--harness", h]
        env = dict(os.environ, CARGO_NET_OFFLINE="true")
        rc, out, err, dt = sh(cmd, cwd=self.crate, timeout=timeout, env=env)
        self.last_cmd = " ".join(cmd)
        if rc == -9:
            raise Undecided("kani: timeout after %ds" % timeout)
        if "error: could not compile" in err or "error[E" in err or "error[E" in out or re.search(r"^error: ", err, re.M) and "Checking harness" not in out:
            err = re.sub(r"\x1b\[[0-9;]*m", "", out + "\n" + err)
            errs = re.findall(r"^\s*error(?:\[E\d+\])?: .*(?:\n(?!\s*error|\s*warning).*){0,12}", err, re.M)
            errs = [e for e in errs if "could not compile" not in e] + [e for e in errs if "could not compile" in e]
            raise Undecided("kani: build error in scratch copy:\n" + "\n".join(errs[:6])[:4000])
        res = parse_kani_terse(out)
        res["_wall_s"] = dt
        res["_raw"] = out
        return res

    def run_single_regular(self, harness, timeout=900, playback=False):
        self.set_contracts(harness in getattr(self, "contract_harnesses", ()))
        cmd = ["cargo", "kani", "-Z", "function-contracts", "-Z", "stubbing", "--harness", harness]
        if playback:
            cmd += ["-Z", "concrete-playback", "--concrete-playback=print"]
        env = dict(os.environ, CARGO_NET_OFFLINE="true")
        rc, out, err, dt = sh(cmd, cwd=self.crate, timeout=timeout, env=env)
        return rc, out, err, dt


def parse_kani_terse(out):
    """terse parallel output -> {harness: {status, checks, failed, covers, covers_sat, failed_checks[], time}}"""
    res = {}
    thread_h = {}
    cur_thread = None
    cur = None
    lines = out.split("\n")
    i = 0
    for ln in lines:
        m = re.match(r"^(?:Thread (\d+): )?Checking harness (\S+?)\.\.\.", ln)
        if m:
            th = m.group(1) or "0"
            name = m.group(2)
            short = name.split("::")[-1]
            thread_h[th] = short
            res[short] = {"full": name, "status": None, "checks": 0, "failed": 0, "covers": 0, "covers_sat": 0,
                          "failed_checks": [], "time": None, "undetermined": 0}
            cur = res[short] if m.group(1) is None else cur
            if m.group(1) is None:
                cur_thread = "0"
            continue
        m = re.match(r"^Thread (\d+):\s*$", ln)
        if m:
            cur_thread = m.group(1)
            cur = res.get(thread_h.get(cur_thread))
            continue
        if cur is None:
            continue
        m = re.match(r"^\s*\*\* (\d+) of (\d+) failed(?: \((.*)\))?", ln)
        if m:
            cur["failed"], cur["checks"] = int(m.group(1)), int(m.group(2))
            extra = m.group(3) or ""
            mu = re.search(r"(\d+) undetermined", extra)
            if mu:
                cur["undetermined"] = int(mu.group(1))
            continue
        m = re.match(r"^\s*\*\* (\d+) of (\d+) cover properties satisfied", ln)
        if m:
            cur["covers_sat"], cur["covers"] = int(m.group(1)), int(m.group(2))
            continue
        m = re.match(r"^Failed Checks: (.*)$", ln)
        if m:
            cur["failed_checks"].append({"desc": m.group(1), "loc": ""})
            continue
        m = re.match(r'^\s*File: "(.*?)", line (\d+), in (.*)$', ln)
        if m and cur["failed_checks"]:
            cur["failed_checks"][-1]["loc"] = "%s:%s in %s" % (m.group(1), m.group(2), m.group(3))
            continue
        m = re.match(r"^VERIFICATION:- (\w+)(.*)$", ln)
        if m:
            cur["status"] = m.group(1)
            cur["status_note"] = m.group(2).strip()
            continue
        if ln.startswith("CBMC timed out") or "CBMC failed" == ln.strip():
            cur["cbmc_abort"] = True
            continue
        m = re.match(r"^Verification Time: ([\d.]+)s", ln)
        if m:
            cur["time"] = float(m.group(1))
    return res


def list_harnesses(prefixes):
    """harness fn names in kani/harness/*.rs whose name starts with one of the prefixes"""
    found = {}
    files = []
    for sub in ("harness", "harness_contracts"):
        d = os.path.join(VERIF, "kani", sub)
        if os.path.isdir(d):
            files += [(os.path.join(d, fn), fn) for fn in sorted(os.listdir(d)) if fn.endswith(".rs")]
    for path_, fn in files:
        src = open(path_).read()
        for m in re.finditer(r"#\[kani::proof(?:_for_contract\([^)]*\))?\]((?:\s*#\[(?:[^\[\]]|\[[^\]]*\])*\])*)\s*(?:pub\s+)?fn\s+(\w+)", src):
            attrs, name = m.group(1), m.group(2)
            if any(name.startswith(p) for p in prefixes):
                um = re.search(r"kani::unwind\((\d+)\)", attrs)
                before = src[max(0, m.start() - 400):m.start()].rstrip().split("\n")[-1]
                bm = re.match(r"\s*// BOUNDED: (.*)$", before)
                em = re.match(r"\s*// EXACT-UNWIND: (.*)$", before)
                found[name] = {"module": fn[:-3], "should_panic": "should_panic" in attrs,
                               "unwind": int(um.group(1)) if um else None,
                               "bounded_note": bm.group(1) if bm else None,
                               "exact_unwind": em.group(1) if (em and um) else None,
                               "contract": "proof_for_contract" in m.group(0)}
        # harness families generated by a local macro:  macro_rules! xyz_harnesses { ... #[kani::proof] ... fn $name ... }
        for mm in re.finditer(r"macro_rules!\s+(\w+_harnesses)\s*\{(.*?)\n\}", src, re.S):
            mname, mbody = mm.group(1), mm.group(2)
            um = re.search(r"kani::unwind\((\d+)\)", mbody)
            before = src[max(0, mm.start() - 600):mm.start()].rstrip().split("\n")[-1]
            em = re.match(r"\s*// EXACT-UNWIND: (.*)$", before)
            for inv in re.finditer(re.escape(mname) + r"!\s*\{(.*?)\n\}", src, re.S):
                for nm in re.finditer(r"\b(\w+)\s*:", inv.group(1)):
                    name = nm.group(1)
                    if any(name.startswith(p) for p in prefixes):
                        found[name] = {"module": fn[:-3], "should_panic": "should_panic" in mbody,
                                       "unwind": int(um.group(1)) if um else None, "contract": False,
                                       "exact_unwind": em.group(1) if (em and um) else None}
    return found


# ----------------------------------------------------------------------------
# known findings


def load_findings():
    p = os.path.join(VERIF, "known_findings.txt")
    out = []
    if os.path.exists(p):
        for ln in open(p):
            ln = ln.strip()
            m = re.match(r"^finding:\s+property=(\S+)\s+obligation=(\S+)\s+(.*)$", ln)
            if m:
                out.append({"property": m.group(1), "obligation": m.group(2), "what": m.group(3)})
    return out


# ----------------------------------------------------------------------------


def main():
    ap = argparse.ArgumentParser()
    ap.add_argument("prop")
    ap.add_argument("--tier", default=os.environ.get("VERIF_TIER", "quick"), choices=["quick", "thorough"])
    ap.add_argument("--keep", action="store_true")
    ap.add_argument("--replay")
    a = ap.parse_args()
    seed = int(os.environ.get("VERIF_SEED", "0") or 0)
    pid = a.prop
    if a.replay:
        import replay
        sys.exit(replay.rerun(a.replay))
    if pid not in PLAN.PLAN:
        print("UNDECIDED property=%s: no check is registered for this property" % pid)
        sys.exit(2)
    spec = PLAN.PLAN[pid]
    t0 = time.time()
    evp = os.path.join(os.environ.get("VERIF_EVIDENCE_DIR", os.path.join(VERIF, "evidence")), pid + ".json")
    os.makedirs(os.path.dirname(evp), exist_ok=True)
    if os.path.exists(evp):
        os.remove(evp)
    os.makedirs(os.environ.get("VERIF_REPLAY_DIR", os.path.join(VERIF, "replay")), exist_ok=True)
    workdir = tempfile.mkdtemp(prefix="verif-verus-", dir=SCRATCH_ROOT)
    ks = None
    obligations = []  # dicts: id, engine, kind, status(discharged|failed|undecided), detail, solver_s, label
    undecided = []
    assumptions = list(PLAN.COMMON_ASSUMPTIONS) + list(spec.get("assumptions", []))
    trusted = []
    cmds = []
    fn_under_contract = []
    extract_summ = []
    vacuity_summ = []
    bounded = []
    try:
        # ---- Verus
        for u in spec.get("verus", []):
            unit, fn_pats = u["unit"], u["functions"]
            try:
                r = run_verus_unit(unit, workdir, a.tier, seed)
                if a.tier == "thorough":
                    # proof stability: the whole unit is verified a second time under a different solver seed; an obligation that
                    # is discharged under one seed and not under the other is reported as undecided (never as a violation)
                    r2 = run_verus_unit(unit, workdir, a.tier, (seed or 0) + 101)
                    cmds.append(r2["cmd"])
                    for k_, f2 in r2["functions"].items():
                        f1 = r["functions"].get(k_)
                        if f1 is not None and f1["success"] != f2["success"] and k_ != "canary_must_fail":
                            f1["success"] = False
                            f1["undecided"] = True
                            f1["errors"] = f1["errors"] or [{"text": "unstable proof: discharged under one solver seed, not under another", "msg": "unstable", "line": 0}]
                        if f1 is not None:
                            f1["us"] = max(f1["us"], f2["us"])
            except Undecided as e:
                undecided.append(str(e))
                continue
            cmds.append(r["cmd"])
            try:
                vp_ = run_vacuity_probe(unit, workdir, a.tier)
                cmds.append(vp_["cmd"] + "   # vacuity probes: must fail")
                if vp_["proved"]:
                    undecided.append("verus %s: vacuity guard: `assert(false)` at the exit of %s is PROVED -- contradictory preconditions" % (unit, sorted(set(map(str, vp_["proved"])))))
                vacuity_summ.append({"unit": unit, "functions_probed": vp_["functions"], "probes": vp_["probes"], "proved": vp_["proved"], "wall_s": round(vp_["wall_s"], 1)})
            except Undecided as e:
                undecided.append(str(e))
            log = r["log"]
            extract_summ.append({"unit": unit, "rules": log["rules"], "dropped_docs": log["dropped_docs"],
                                 "dropped_attrs": log["dropped_attrs"], "spliced_clauses": log["spliced_clauses"],
                                 "spliced_loop_clauses": log["spliced_loop_clauses"], "rehomed": log.get("rehomed", []), "monomorphised": log.get("monomorphised", []),
                                 "inlined_helpers": log.get("inlined_helpers", []), "macro_expansions": log.get("macro_expansions", []),
                                 "restated_derives": log.get("restated_derives", []), "substitutions": log.get("substitutions", []),
                                 "extracted_fns": len(log["fns"]), "verus_verified_queries": r["verified"]})
            extracted = {}
            for f in log["fns"]:
                k, n_ = f["qual"], 1
                while k in extracted:
                    n_ += 1
                    k = "%s#%d" % (f["qual"], n_)
                extracted[k] = f
            matched = 0
            canary_ok = None
            for name, f in sorted(r["functions"].items()):
                short = name
                if short == "canary_must_fail":
                    canary_ok = not f["success"]
                    continue
                if not any(re.fullmatch(p, short) for p in fn_pats):
                    continue
                matched += 1
                st = "discharged" if f["success"] else ("undecided" if f.get("undecided") else "failed")
                kind = "exec-contract" if short in extracted and f["mode"] == "exec" else ("lemma" if f["mode"] == "proof" else f["mode"])
                ob = {"id": "verus:%s:%s" % (unit, short), "engine": "verus/z3", "kind": kind, "status": st,
                      "solver_s": f["us"] / 1e6,
                      "detail": [d["text"] for d in f["errors"]][:6]}
                if short in extracted:
                    ob["repo"] = "%s:%d-%d" % (extracted[short]["file"], extracted[short]["lines"][0], extracted[short]["lines"][1])
                    ob["contract"] = [c.strip() for c in extracted[short]["contract"]]
                    fn_under_contract.append("%s (%s)" % (extracted[short]["fn"], ob["repo"]))
                obligations.append(ob)
            if canary_ok is False:
                undecided.append("verus %s: the canary `ensures false` verified -- the unit's axioms are inconsistent" % unit)
            if canary_ok is None and u.get("canary", True):
                undecided.append("verus %s: canary lemma missing from output" % unit)
            missing = [p for p in u.get("must_have", []) if not any(re.fullmatch(p, n) for n in r["functions"])]
            if missing:
                undecided.append("verus %s: expected obligations missing (vacuity guard): %s" % (unit, missing))
            if matched == 0:
                undecided.append("verus %s: no obligations matched for %s" % (unit, pid))
            trusted += scan_trusted(open(r["gen"]).read(), unit)
        # ---- Kani
        kspec = spec.get("kani")
        if kspec:
            prefixes = list(kspec["prefix"]) + (list(kspec.get("thorough_prefix", [])) if a.tier == "thorough" else [])
            hs = list_harnesses(prefixes)
            only = os.environ.get("VERIF_ONLY")  # development aid: restrict to harnesses matching a regex (evidence then says so)
            if only:
                hs = {k: v for k, v in hs.items() if re.search(only, k)}
                undecided.append("VERIF_ONLY=%s: partial run, not a verdict" % only)
            if not hs:
                undecided.append("kani: no harness with prefixes %s" % prefixes)
            else:
                ks = KaniSession(keep=a.keep)
                ks.harness_timeout = 600 if a.tier == "quick" else 2400
                try:
                    tmo_k = kspec.get("timeout", 1500) if a.tier == "quick" else kspec.get("timeout_thorough", 5400)
                    regular = sorted(h for h, m_ in hs.items() if not m_["contract"])
                    contract = sorted(h for h, m_ in hs.items() if m_["contract"])
                    ks.contract_harnesses = set(contract)
                    res = {}
                    if regular:
                        res.update(ks.run(regular, jobs=int(os.environ.get("VERIF_JOBS", "8")), timeout=tmo_k))
                        cmds.append(ks.last_cmd)
                    if contract:
                        # second build of the same scratch copy, now with the contract attributes of kani/contracts.json spliced in
                        res.update(ks.run(contract, jobs=int(os.environ.get("VERIF_JOBS", "8")), timeout=tmo_k, contracts=True))
                        cmds.append(ks.last_cmd + "   # with kani/contracts.json spliced onto the real functions")
                    for h, meta in sorted(hs.items()):
                        r = res.get(h)
                        if r is None or r["status"] is None:
                            undecided.append("kani: harness %s produced no verdict (vacuity guard)" % h)
                            obligations.append({"id": "kani:" + h, "engine": "kani/cbmc", "kind": "harness", "status": "undecided",
                                                "detail": ["no verdict"], "solver_s": 0})
                            continue
                        ob = classify_kani(h, meta, r)
                        obligations.append(ob)
                        if (meta["unwind"] and not meta.get("exact_unwind")) or meta.get("bounded_note"):
                            bounded.append("%s: bounded%s%s" % (h, (", unwind(%d)" % meta["unwind"]) if meta["unwind"] else "",
                                                                (", " + meta["bounded_note"]) if meta.get("bounded_note") else ""))
                    hsrc = "".join(open(os.path.join(VERIF, "kani", "harness", f)).read() for f in os.listdir(os.path.join(VERIF, "kani", "harness")))
                    trusted += scan_trusted_kani(hs)
                except Undecided as e:
                    undecided.append(str(e))
        # ---- replay for failed obligations
        findings = load_findings()
        violations = []
        known = []
        for ob in obligations:
            if ob["status"] != "failed":
                continue
            kf = next((f for f in findings if f["property"] == pid and f["obligation"] == ob["id"]), None)
            if kf:
                known.append((ob, kf))
                continue
            violations.append(ob)
        for ob in violations:
            import replay
            ob["replay"] = replay.make(pid, ob, ks, obligations, spec)
    finally:
        shutil.rmtree(workdir, ignore_errors=True)
        if ks is not None:
            ks.cleanup()
    wall = time.time() - t0
    n_ob = len(obligations)
    n_ok = sum(1 for o in obligations if o["status"] == "discharged")
    level = spec.get("level", "proof")
    ev = {
        "property_id": pid, "tier": a.tier, "seed": seed, "level": level,
        "coverage": {
            "obligations": n_ob, "discharged": n_ok,
            "checker_cmd": " ; ".join(cmds) if cmds else "none",
            "trusted_base": sorted(set(trusted)),
            "functions_under_contract": sorted(set(fn_under_contract)),
            "backends": sorted(set(o["engine"] for o in obligations)),
            "solver_s": round(sum(o.get("solver_s") or 0 for o in obligations), 3),
            "bounded_harnesses": bounded,
            "extraction": extract_summ,
            "vacuity_probes": vacuity_summ,
            "samples": [{"id": o["id"], "kind": o["kind"], "status": o["status"], "solver_s": round(o.get("solver_s") or 0, 3),
                         **({"repo": o["repo"]} if "repo" in o else {}), **({"checks": o["checks"]} if "checks" in o else {}),
                         **({"contract": o["contract"]} if o.get("contract") else {})}
                        for o in obligations],
            "undecided": undecided,
            "known_findings": [o["id"] for o, _ in known] if obligations else [],
            "explanation": spec.get("explanation", ""),
        },
        "assumptions": assumptions,
        "wall_s": round(wall, 2),
        "violations": len([o for o in obligations if o["status"] == "failed"]) - (len(known) if obligations else 0),
    }
    json.dump(ev, open(evp, "w"), indent=1)
    for ob, kf in (known if obligations else []):
        print("KNOWN-FINDING: property=%s %s (%s)" % (pid, kf["what"], ob["id"]))
    rc = 0
    viol = [o for o in obligations if o["status"] == "failed" and not any(o is k for k, _ in known)]
    for ob in viol:
        tail = "" if ob.get("replay", {}).get("reproduced") else " no-failing-input-found"
        print("obligation failed: %s" % ob["id"])
        for d in ob.get("detail", [])[:3]:
            print("    " + str(d).replace("\n", "\n    "))
        print("VIOLATION property=%s replay=%s%s" % (pid, ob.get("replay", {}).get("path", "none"), tail))
        rc = 1
    und = undecided + ["%s: %s" % (o["id"], "; ".join(map(str, o.get("detail", [])))[:300]) for o in obligations if o["status"] == "undecided"]
    for u in und:
        print("UNDECIDED property=%s %s" % (pid, u))
    if rc == 0 and und:
        rc = 2
    print("%s: %d obligations, %d discharged, %d known findings, %d violations, %d undecided [%s, %.0fs]" % (
        pid, n_ob, n_ok, len(known), len(viol), len(und), a.tier, wall))
    sys.exit(rc)


def classify_kani(h, meta, r):
    real_fail = [fc for fc in r["failed_checks"] if not any(p.search(fc["desc"]) for p in IGNORED_KANI_CLASSES)]
    ignored = len(r["failed_checks"]) - len(real_fail)
    ob = {"id": "kani:" + h, "engine": "kani/cbmc", "kind": "contract" if meta["contract"] else (("complete(unwind=%d is exact, unwinding assertions on: %s)" % (meta["unwind"], meta["exact_unwind"])) if (meta.get("exact_unwind") and not meta.get("bounded_note")) else ("bounded(unwind=%d)" % meta["unwind"] if meta["unwind"] else ("bounded" if meta.get("bounded_note") else "complete"))),
          "solver_s": r["time"] or 0, "checks": r["checks"] + r["covers"], "detail": []}
    if r.get("cbmc_abort"):
        ob["status"] = "undecided"
        ob["detail"] = ["CBMC timed out or aborted (per-harness limit)"]
        return ob
    if meta["should_panic"]:
        # must panic on every path: the cover after the call is unreachable
        if r["status"] == "SUCCESSFUL" and r["covers_sat"] == 0 and r["covers"] >= 1:
            ob["status"] = "discharged"
        elif r["covers_sat"] > 0 or (r["status"] == "FAILED" and "panic" in (r.get("status_note") or "").lower() or r["failed"] == 0):
            ob["status"] = "failed"
            ob["detail"] = ["the call can return normally (cover after the call is reachable / no panic)"]
        else:
            ob["status"] = "failed"
            ob["detail"] = ["%s %s" % (fc["desc"], fc["loc"]) for fc in r["failed_checks"]]
        return ob
    if r["undetermined"] and not real_fail:
        ob["status"] = "undecided"
        ob["detail"] = ["%d checks undetermined" % r["undetermined"]]
        return ob
    unwind_fail = [fc for fc in real_fail if "unwinding assertion" in fc["desc"]]
    if unwind_fail:
        ob["status"] = "undecided"
        ob["detail"] = ["unwinding assertion failed (bound too small): " + fc["loc"] for fc in unwind_fail]
        return ob
    if real_fail:
        ob["status"] = "failed"
        ob["detail"] = ["%s @ %s" % (fc["desc"], fc["loc"]) for fc in real_fail]
        return ob
    if r["status"] == "FAILED" and r["failed"] > len(r["failed_checks"]):
        # failures not itemised in terse mode
        ob["status"] = "failed"
        ob["detail"] = ["%d checks failed" % r["failed"]]
        return ob
    if r["covers"] and r["covers_sat"] < r["covers"]:
        ob["status"] = "undecided"
        ob["detail"] = ["vacuity guard: only %d of %d cover properties satisfied" % (r["covers_sat"], r["covers"])]
        return ob
    if r["covers"] == 0:
        ob["status"] = "undecided"
        ob["detail"] = ["vacuity guard: harness has no cover property"]
        return ob
    ob["status"] = "discharged"
    if ignored:
        ob["detail"] = ["%d CBMC float NaN/overflow checks ignored by class" % ignored]
    return ob


def scan_trusted(text, unit):
    out = []
    for m in re.finditer(r"#\[verifier::external_body\]\s*(?:#\[[^\]]*\]\s*)*(?:pub\s+)?(?:const\s+)?(fn|struct)\s+(\w+)", text):
        out.append("verus %s: external_body %s %s" % (unit, m.group(1), m.group(2)))
    for m in re.finditer(r"\baxiom fn\s+(\w+)", text):
        out.append("verus %s: axiom %s" % (unit, m.group(1)))
    for m in re.finditer(r"\b(admit|assume)\s*\(", text):
        out.append("verus %s: %s() present" % (unit, m.group(1)))
    for m in re.finditer(r"assume_specification", text):
        out.append("verus %s: assume_specification present" % unit)
    for m in re.finditer(r"\buninterp spec fn\s+(\w+)", text):
        out.append("verus %s: uninterpreted %s" % (unit, m.group(1)))
    return out


def scan_trusted_kani(hs):
    out = []
    mods = sorted(set(m["module"] for m in hs.values()))
    for mod in mods:
        src = open(os.path.join(VERIF, "kani", "harness", mod + ".rs")).read()
        for m in re.finditer(r"#\[kani::stub\(([^)]*)\)\]", src):
            out.append("kani %s: stub %s" % (mod, re.sub(r"\s+", " ", m.group(1))))
        n = len(re.findall(r"kani::assume\(", src))
        if n:
            out.append("kani %s: %d kani::assume (input domain restrictions, each guarded by a cover)" % (mod, n))
    return out


if __name__ == "__main__":
    main()
