#!/usr/bin/env python3
"""mkmanifest.py -- regenerate MANIFEST.json from tools/plan.py (single source of truth)."""
import json, os, sys
HERE = os.path.dirname(os.path.abspath(__file__))
sys.path.insert(0, HERE)
import plan as P

NA = [
    {"property_id": "C06", "reason": "accuracy of statrs' iterative inverse-CDF code in a dependency: a contract on t_value/z_value can only assume CDF(inverse_cdf(p)) = p; which quantile / dof / branch is used is decided in C01, C02, C04"},
    {"property_id": "C08", "reason": "whole-history floating-point error bound O(u*sum|x|): a numerical-analysis theorem, not an inductive invariant a deductive verifier discharges; no contract within reach expresses it"},
    {"property_id": "C12", "reason": "exact binomial coverage is a weighted sum over all outcomes of an indicator of the output: a numerical enumeration, not a pre/postcondition of any function"},
    {"property_id": "C20", "reason": "feature-matrix compilation and derive-macro serde output through an external format crate: no function in /repo carries a contract for it and CBMC cannot execute a real format"},
]
ALL = ["C%02d" % i for i in range(1, 21)]
checks = []
for pid in ALL:
    if pid not in P.PLAN:
        continue
    s = P.PLAN[pid]
    engines = []
    if s.get("verus"):
        engines.append("verus")
    if s.get("kani"):
        engines.append("kani")
    checks.append({
        "property_id": pid,
        "quick_cmd": "./check %s --tier quick" % pid,
        "thorough_cmd": "./check %s --tier thorough" % pid,
        "evidence_file": "/verif/evidence/%s.json" % pid,
        "replay_cmd_template": "./check %s --replay {path}" % pid,
        "engine": "+".join(engines),
        "level_claimed": {"category": s.get("level", "proof"), "text": s["level_text"], "design_ref": "DESIGN.md section 6, %s" % pid},
        "level_note": s["level_note"],
        "technique": s["technique"],
    })
claimed = {c["property_id"] for c in checks}
na = [n for n in NA if n["property_id"] not in claimed]
for pid in ALL:
    if pid not in claimed and pid not in {n["property_id"] for n in na}:
        na.append({"property_id": pid, "reason": "check not built yet (planned; see DESIGN.md section 6)"})
m = {
    "version": 1,
    "setup_cmd": "true",
    "hooks": {"guard": "none", "enable": "no hooks: the machinery never modifies /repo; Kani's own cfg(kani) exists only in a scratch copy made at check time",
              "baseline_off_cmd": "cd /repo && cargo test --workspace --no-fail-fast --offline", "source_commits": [], "add_only": True},
    "engines": [
        {"name": "verus", "path": "/verif/tools/extract.py + /verif/verus/units", "serves_properties": [c["property_id"] for c in checks if "verus" in c["engine"]],
         "kind_free_text": "deductive verifier (Verus/Z3) on functions extracted mechanically from /repo/src at every run, contracts spliced from the unit templates"},
        {"name": "kani", "path": "/verif/tools/run.py + /verif/kani/harness", "serves_properties": [c["property_id"] for c in checks if "kani" in c["engine"]],
         "kind_free_text": "Kani/CBMC on a scratch copy of the real crate with harness modules mounted as children of the source modules; loop-free full-domain harnesses and function contracts; bounded harnesses labelled as such"},
    ],
    "checks": checks,
    "not_applicable": na,
    "notes": "Exit codes: 0 all obligations discharged, 1 VIOLATION (a named obligation failed), 2 UNDECIDED (timeout, lost anchor, unsupported construct, vacuity guard).",
}
json.dump(m, open(os.path.join(os.path.dirname(HERE), "MANIFEST.json"), "w"), indent=1)
print("MANIFEST: %d checks, %d not applicable" % (len(checks), len(na)))
