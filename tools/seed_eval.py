#!/usr/bin/env python3
"""seed_eval.py <property> <src_dir> <name> [--checks C01,C09]

Confirms a seeded property-breaking change (patch.diff + demo.rs written by an independent sub-agent) in a scratch
worktree of /repo (compiles, existing suite green, demo red with the change / green without), then applies it to
/repo, runs the checks, reverts /repo, and files everything under /verif/seeded/<name>/.
"""
import json, os, re, shutil, subprocess, sys, time

VERIF = os.path.dirname(os.path.dirname(os.path.abspath(__file__)))


def sh(cmd, cwd=None, timeout=3600):
    p = subprocess.run(cmd, cwd=cwd, shell=True, stdout=subprocess.PIPE, stderr=subprocess.STDOUT, text=True, timeout=timeout)
    return p.returncode, p.stdout


def main():
    prop, src, name = sys.argv[1], sys.argv[2], sys.argv[3]
    checks = [prop]
    if "--checks" in sys.argv:
        checks = sys.argv[sys.argv.index("--checks") + 1].split(",")
    patch = os.path.join(src, "patch.diff")
    demo = os.path.join(src, "demo.rs")
    out = os.path.join(VERIF, "seeded", name)
    os.makedirs(out, exist_ok=True)
    meta = {"property": prop, "name": name, "confirmed": False, "ran": []}
    prev = None
    if os.path.exists(os.path.join(out, "meta.json")):
        try:
            prev = json.load(open(os.path.join(out, "meta.json")))
        except Exception:
            prev = None
    wt = "/tmp/seedeval-%s" % name
    sh("git -C /repo worktree remove --force %s" % wt)
    rc, o = sh("git -C /repo worktree add -q --detach %s HEAD" % wt)
    try:
        shutil.copy(demo, os.path.join(wt, "tests", "seed_demo.rs"))
        rc0, o0 = sh("cargo test --offline --test seed_demo 2>&1 | tail -15", cwd=wt)
        base_ok = "test result: ok" in o0
        meta["ran"].append({"cmd": "cargo test --offline --test seed_demo (unchanged tree)", "passed": base_ok})
        rc1, o1 = sh("git apply %s" % patch, cwd=wt)
        meta["ran"].append({"cmd": "git apply patch.diff", "ok": rc1 == 0, "out": o1[-500:]})
        rc2, o2 = sh("cargo test --offline --no-fail-fast 2>&1 | grep -E '^test result|FAILED|^test .* FAILED|Running|error(\\[|:)' | head -60", cwd=wt)
        results = re.findall(r"test result: (\w+)\. (\d+) passed; (\d+) failed", o2)
        # exactly one failing binary: seed_demo
        fails = [r for r in results if r[0] != "ok"]
        meta["ran"].append({"cmd": "cargo test --offline --no-fail-fast (with the change)", "summary": o2[-1500:]})
        rc3, o3 = sh("cargo test --offline --test seed_demo 2>&1 | tail -25", cwd=wt)
        demo_red = "test result: FAILED" in o3 or "panicked" in o3
        compiles = "error[" not in o2 and "could not compile" not in o2
        suite_green = compiles and len(fails) == 1 and len(results) >= 5
        meta["suite_green_with_change"] = suite_green
        meta["demo_passes_without"] = base_ok
        meta["demo_fails_with"] = demo_red
        meta["demo_failure"] = o3[-1200:]
        meta["confirmed"] = bool(base_ok and suite_green and demo_red and rc1 == 0)
    finally:
        sh("git -C /repo worktree remove --force %s" % wt)
        shutil.rmtree(wt, ignore_errors=True)
    shutil.copy(patch, os.path.join(out, "patch.diff"))
    shutil.copy(demo, os.path.join(out, "demo.rs"))
    if os.path.exists(os.path.join(src, "notes.md")):
        shutil.copy(os.path.join(src, "notes.md"), os.path.join(out, "agent_notes.md"))
    meta["checks"] = {}
    if meta["confirmed"]:
        # the checks are pointed (VERIF_REPO) at a scratch copy of /repo's working tree with the change applied, so that
        # several seeds can be evaluated while /repo itself stays untouched; same code path as `git -C /repo apply` + ./check
        copy = "/tmp/seedrepo-%s" % name
        sh("rm -rf %s; rsync -a --exclude target /repo/ %s/" % (copy, copy))
        rc, o = sh("git apply %s" % patch, cwd=copy)
        try:
            for c in checks:
                t0 = time.time()
                rcc, oc = sh("VERIF_REPO=%s VERIF_REPLAY_DIR=%s VERIF_EVIDENCE_DIR=/tmp/seedevidence ./check %s --tier quick 2>&1 | grep -vE '^    '" % (copy, os.path.join(out, "replay"), c), cwd=VERIF, timeout=5400)
                viol = re.findall(r"^VIOLATION.*$", oc, re.M)
                failed = re.findall(r"^obligation failed: (.*)$", oc, re.M)
                und = re.findall(r"^UNDECIDED.*$", oc, re.M)
                last = oc.strip().split("\n")[-1] if oc.strip() else ""
                meta["checks"][c] = {"caught": bool(viol), "failed_obligations": failed, "violation_lines": viol, "undecided": und[:5], "summary": last,
                                     "wall_s": round(time.time() - t0)}
                print(name, c, "CAUGHT" if viol else "MISSED", failed[:4], last)
        finally:
            sh("rm -rf %s" % copy)
    else:
        print(name, "NOT CONFIRMED", {k: meta.get(k) for k in ("suite_green_with_change", "demo_passes_without", "demo_fails_with")})
    if prev is not None:
        hist = prev.get("earlier_runs", [])
        hist.append({"checks": prev.get("checks", {}), "note": "verdict of an earlier version of the checks (kept to show what was strengthened)"})
        meta["earlier_runs"] = hist
    json.dump(meta, open(os.path.join(out, "meta.json"), "w"), indent=1)


if __name__ == "__main__":
    main()
